/-
  Core G (C09): (1) the result mapping of `loader.Load` / `Loader.LoadMany`
  (loader/loader_latest.go:110-162) and the batch pipeline of `PretouchMany`
  (encoder/pools_amd64.go:95-164, decoder/jitdec/decoder.go:151-219);
  (2) the codec cache seen as a history machine.
  Core Lean only.

  The top-level definitions follow the code AS IT IS NOW:
    * `Load` remembers the entry offsets by POSITION before `makeModuledata` sorts `funcs` in place
      (fix 9e7dce3) and builds `out[i]` from `offs[i]`;
    * the pretouch pipelines keep `entries` and `items` as parallel slices and register `loaded[i]` for
      `entries[i].vt`;
    * the encoder program cache is selected by pointer-value-ness (`cacheFor(pv)`, fix e042f54), i.e. the
      cache key is the whole request (type, pv); the decoder caches are keyed by type and compile from
      the type alone.
  Namespace `PreFix` keeps the models of the code BEFORE those fixes (results matched by function name;
  cache keyed by type only) as regression documentation: "if the code went back to that shape, this is
  the witness" - see the `PreFix.*` theorems of Props/C09.lean.
-/
namespace SonicSpec.Conc

/-! ### loader.Load -/

/-- `loader.Func`, the two fields the mapping reads -/
structure Func where
  name : String
  entryOff : Nat
deriving DecidableEq, Repr

/-- insertion into a list sorted by entry offset (stand-in for `sort.Slice(funcs, EntryOff <)` in
    `makeModuledata`, funcdata_compat.go:316 / moduledata.go:209; `sort.Slice` is not stable, the
    theorems therefore hold for EVERY list the sort may leave in `funcs`) -/
def insertByEntry (f : Func) : List Func → List Func
  | [] => [f]
  | g :: r => if f.entryOff < g.entryOff then f :: g :: r else g :: insertByEntry f r

def sortByEntry : List Func → List Func
  | [] => []
  | f :: r => insertByEntry f (sortByEntry r)

/-- `Load` (loader_latest.go:138-161): `offs[i] = funcs[i].EntryOff` is taken BEFORE `makeModuledata`
    sorts `funcs` in place; afterwards `out[i] = mod.text + offs[i]`.  `sorted` is whatever the sort
    left in `funcs` - the mapping no longer looks at it.  `text` = address of the text segment. -/
def loadWith (text : Nat) (funcs : List Func) (_sorted : List Func) : List Nat :=
  let offs := funcs.map (·.entryOff)
  offs.map (fun off => text + off)

def load (text : Nat) (funcs : List Func) : List Nat := loadWith text funcs (sortByEntry funcs)

/-- `LoadOneItem`, the fields that matter: name and length of the machine code -/
structure Item where
  name : String
  size : Nat
deriving DecidableEq, Repr

/-- `LoadMany` (loader_latest.go:119-124): entry offsets are the running sums of the text sizes -/
def layout : List Item → Nat → List Func
  | [], _ => []
  | it :: r, off => { name := it.name, entryOff := off } :: layout r (off + it.size)

def loadMany (text : Nat) (items : List Item) : List Nat := load text (layout items 0)

/-- a Go type as the pretouch pipeline sees it: identity (`*rt.GoType`) and `vt.String()` -/
structure Ty where
  id : Nat
  str : String
deriving DecidableEq, Repr

/-- offsets of the items of a batch: running sums of the code sizes -/
def offsets : List Nat → Nat → List Nat
  | [], _ => []
  | sz :: r, off => off :: offsets r (off + sz)

/-- `pretouchRec*` (encoder/pools_amd64.go:145-161, jitdec/decoder.go:200-216): `pendings` is walked once,
    in whatever order the map iteration yields (= the order of `tys`), appending to the PARALLEL slices
    `entries` and `items` (`FuncName = prefix + vt.String()`); after `LoadMany(items)` the function
    `loaded[i]` is registered for `entries[i].vt`.  Result: the association type → code address. -/
def pretouchBatch (pfx : String) (text : Nat) (tys : List (Ty × Nat)) : List (Ty × Nat) :=
  let entries := tys.map (·.1)
  let items := tys.map fun (t, sz) => ({ name := pfx ++ t.str, size := sz } : Item)
  entries.zip (loadMany text items)

/-! ### the cache as a history machine -/

section Hist
variable {τ χ π : Type} [DecidableEq τ]

def assoc {β : Type} (k : τ) : List (τ × β) → Option β
  | [] => none
  | (k', v) :: r => if k' = k then some v else assoc k r

end Hist

section HistNow
variable {τ χ π : Type} [DecidableEq τ] [DecidableEq χ]

/-- `FindOrCompile(vt, pv)` (encoder/vars/cache.go:39-48 with `cacheFor(pv)`): the cache is asked with the
    whole request (type, context); on a miss the program is compiled for exactly this request and stored
    under it.  (Decoder caches: χ = Unit.) -/
def serve (compile : τ → χ → π) (cache : List ((τ × χ) × π)) (r : τ × χ) : π × List ((τ × χ) × π) :=
  match assoc r cache with
  | some p => (p, cache)
  | none => (compile r.1 r.2, (r, compile r.1 r.2) :: cache)

/-- the cache after a history of requests -/
def runHist (compile : τ → χ → π) (c : List ((τ × χ) × π)) (h : List (τ × χ)) : List ((τ × χ) × π) :=
  h.foldl (fun c r => (serve compile c r).2) c

/-- the program that serves request `r` after history `h`, starting from an empty cache (fresh process) -/
def servedAfter (compile : τ → χ → π) (h : List (τ × χ)) (r : τ × χ) : π :=
  (serve compile (runHist compile [] h) r).1

end HistNow

/-! ### models of the code BEFORE the fixes (regression documentation) -/
namespace PreFix

/-- old loader_latest.go:153-160, inner loop: `for _, f := range funcs { if f.Name == s { out[i] = text+f.EntryOff } }`
    - no `break`, the LAST function with that name wins.  `none` = `out[i]` never assigned. -/
def findEntry (text : Nat) (funcs : List Func) (s : String) : Option Nat :=
  funcs.foldl (fun out f => if f.name = s then some (text + f.entryOff) else out) none

/-- outer loop: `for i, s := range ids` -/
def mapBack (text : Nat) (ids : List String) (funcs : List Func) : List (Option Nat) :=
  ids.map (findEntry text funcs)

/-- old `Load`: ids taken BEFORE the sort, results mapped back BY NAME afterwards -/
def load (text : Nat) (funcs : List Func) : List (Option Nat) :=
  mapBack text (funcs.map (·.name)) (sortByEntry funcs)

def loadMany (text : Nat) (items : List Item) : List (Option Nat) := load text (layout items 0)

/-- the pretouch pipeline over the by-name loader; also the shape of a pipeline that remembers batch
    positions in a map keyed by `FuncName` (last position wins) instead of parallel slices -/
def pretouchBatch (pfx : String) (text : Nat) (tys : List (Ty × Nat)) : List (Ty × Option Nat) :=
  (tys.map (·.1)).zip (loadMany text (tys.map fun (t, sz) => { name := pfx ++ t.str, size := sz }))

section Hist
variable {τ χ π : Type} [DecidableEq τ]

/-- old `FindOrCompile(vt, ctx)`: the cache is asked with the type ONLY; on a miss the program is
    compiled for the context of THIS request and stored under the type -/
def serve (compile : τ → χ → π) (cache : List (τ × π)) (r : τ × χ) : π × List (τ × π) :=
  match assoc r.1 cache with
  | some p => (p, cache)
  | none => (compile r.1 r.2, (r.1, compile r.1 r.2) :: cache)

def runHist (compile : τ → χ → π) (c : List (τ × π)) (h : List (τ × χ)) : List (τ × π) :=
  h.foldl (fun c r => (serve compile c r).2) c

def servedAfter (compile : τ → χ → π) (h : List (τ × χ)) (r : τ × χ) : π :=
  (serve compile (runHist compile [] h) r).1

/-- context of the first request for type `t` in `h` -/
def firstCtx (t : τ) : List (τ × χ) → Option χ
  | [] => none
  | (t', c) :: r => if t' = t then some c else firstCtx t r

end Hist
end PreFix

end SonicSpec.Conc
