/-
  Core G (C09): (1) the result mapping of `loader.Load` / `Loader.LoadMany`
  (loader/loader_latest.go:110-162) and the batch pipeline of `PretouchMany`
  (encoder/pools_amd64.go:95-164, decoder/jitdec/decoder.go:151-219);
  (2) the codec cache seen as a history machine: keyed by type, while the compiled
  program depends on (type, context) - context = pointer-value-ness `pv` of the first use and the
  compile options of the first use (encoder/vars/cache.go:32, encoder/compiler.go:137-165).
  Core Lean only.
-/
namespace SonicSpec.Conc

/-! ### loader.Load -/

/-- `loader.Func`, the two fields the mapping reads -/
structure Func where
  name : String
  entryOff : Nat
deriving DecidableEq, Repr

/-- loader_latest.go:153-160, inner loop: `for _, f := range funcs { if f.Name == s { out[i] = text+f.EntryOff } }`
    - no `break`, the LAST function with that name wins.  `none` = `out[i]` never assigned. -/
def findEntry (text : Nat) (funcs : List Func) (s : String) : Option Nat :=
  funcs.foldl (fun out f => if f.name = s then some (text + f.entryOff) else out) none

/-- outer loop: `for i, s := range ids` -/
def mapBack (text : Nat) (ids : List String) (funcs : List Func) : List (Option Nat) :=
  ids.map (findEntry text funcs)

/-- insertion into a list sorted by entry offset (stand-in for `sort.Slice(funcs, EntryOff <)` in
    `makeModuledata`, funcdata_compat.go:316 / moduledata.go:209; `sort.Slice` is not stable, the
    theorems therefore hold for EVERY permutation of `funcs`) -/
def insertByEntry (f : Func) : List Func → List Func
  | [] => [f]
  | g :: r => if f.entryOff < g.entryOff then f :: g :: r else g :: insertByEntry f r

def sortByEntry : List Func → List Func
  | [] => []
  | f :: r => insertByEntry f (sortByEntry r)

/-- `Load(text, funcs, …)` (loader_latest.go:138): ids taken BEFORE `makeModuledata` sorts `funcs`
    in place, results mapped back by name afterwards.  `text` = address of the mapped text segment. -/
def load (text : Nat) (funcs : List Func) : List (Option Nat) :=
  mapBack text (funcs.map (·.name)) (sortByEntry funcs)

/-- `LoadOneItem`, the fields that matter: name and length of the machine code -/
structure Item where
  name : String
  size : Nat
deriving DecidableEq, Repr

/-- `LoadMany` (loader_latest.go:119-124): entry offsets are the running sums of the text sizes -/
def layout : List Item → Nat → List Func
  | [], _ => []
  | it :: r, off => { name := it.name, entryOff := off } :: layout r (off + it.size)

def loadMany (text : Nat) (items : List Item) : List (Option Nat) := load text (layout items 0)

/-- a Go type as the pretouch pipeline sees it: identity (`*rt.GoType`) and `vt.String()` -/
structure Ty where
  id : Nat
  str : String
deriving DecidableEq, Repr

/-- `pretouchRec*`: one item per pending type, `FuncName = prefix + vt.String()`; after `LoadMany`
    entry `i` is cached for type `i` (`ComputeProgram(p.vt, … loaded[i])`).  Result: the association
    type → code address. -/
def pretouchBatch (pfx : String) (text : Nat) (tys : List (Ty × Nat)) : List (Ty × Option Nat) :=
  (tys.map (·.1)).zip (loadMany text (tys.map fun (t, sz) => { name := pfx ++ t.str, size := sz }))

/-! ### the cache as a history machine -/

section Hist
variable {τ χ π : Type} [DecidableEq τ]

def assoc {β : Type} (k : τ) : List (τ × β) → Option β
  | [] => none
  | (k', v) :: r => if k' = k then some v else assoc k r

/-- `FindOrCompile(vt, ctx)`: the cache is asked with the type only; on a miss the program is compiled
    for the context of THIS request and stored under the type -/
def serve (compile : τ → χ → π) (cache : List (τ × π)) (r : τ × χ) : π × List (τ × π) :=
  match assoc r.1 cache with
  | some p => (p, cache)
  | none => (compile r.1 r.2, (r.1, compile r.1 r.2) :: cache)

/-- the cache after a history of requests, starting empty (fresh process) -/
def runHist (compile : τ → χ → π) (c : List (τ × π)) (h : List (τ × χ)) : List (τ × π) :=
  h.foldl (fun c r => (serve compile c r).2) c

/-- the program that serves request `r` after history `h` -/
def servedAfter (compile : τ → χ → π) (h : List (τ × χ)) (r : τ × χ) : π :=
  (serve compile (runHist compile [] h) r).1

/-- context of the first request for type `t` in `h` -/
def firstCtx (t : τ) : List (τ × χ) → Option χ
  | [] => none
  | (t', c) :: r => if t' = t then some c else firstCtx t r

end Hist

end SonicSpec.Conc
