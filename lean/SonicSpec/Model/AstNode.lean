/-
  C15 - implementation side: `NodeM`, the hidden representations of `ast.Node` and every operation
  on them, transliterated from ast/node.go, ast/buffer.go, ast/parser.go, ast/iterator.go and
  ast/encode.go (file:line cited at each definition).  Core Lean only.

  What is kept of the real thing
  * the representation switch  raw text -> lazy (parser position + parsed prefix) -> loaded,
    the `loadOnce` flavour used by `Load()` and by nodes created for concurrent reading (`lock`);
  * loaded containers: the physical child store with soft-deleted slots (`Node{}` / `Pair{}`),
    the logical length `l` kept beside it, the optional hash index of objects
    (built when more than `_Threshold_Index` = 16 pairs are present at load time);
  * each public operation with the exact order of its internal steps (which loading it forces,
    which length it consults, which slot it overwrites).

  What is abstracted
  * a raw text is represented by the tree it denotes (`raw v`), a parser position by the list of
    members still ahead of it: byte-level skipping belongs to C02/C14 and is tied by correspondence;
  * the chunked layout of `linkedNodes`/`linkedPairs` is a flat list here; `Model/AstChunk.lean`
    has the chunks and the proof that `At/Set/Push/Pop` on them are the list operations;
  * the code modelled is ast/*.go WITH the four C15 repairs (patches/C15-*.diff): the index keeps the
    first pair of a key, `linkedPairs.Get` survives stale entries and never answers with an unset
    pair, `Move` with an index beyond the children is a no-op;
  * `caching.StrHash` is taken to be collision free (hash of a pair = its key, `none` = the zero
    hash of an emptied `Pair{}`; `StrHash` never returns 0, internal/caching/hashing.go:30).
-/
import SonicSpec.Model.Ast
namespace SonicSpec.Ast

abbrev Hash := Option Key
abbrev Index := List (Hash × Nat)

inductive NodeM where
  | gone                                   -- `Node{}` (V_NONE): an emptied slot
  | null
  | bool (b : Bool)
  | num (lit : Bytes)
  | str (s : Bytes)
  | raw (v : Tree) (lock : Bool)           -- t = type|_V_RAW, (p,l) = text; lock: m != nil
  | arrLazy (pre : List NodeM) (rest : List Tree)                       -- _V_ARRAY_LAZY, l = |pre|
  | objLazy (pre : List (Hash × Key × NodeM)) (rest : List (Key × Tree)) -- _V_OBJECT_LAZY
  | arr (l : Nat) (st : List NodeM)                                     -- V_ARRAY, st = linkedNodes
  | obj (l : Nat) (st : List (Hash × Key × NodeM)) (ix : Option Index)  -- V_OBJECT, st = linkedPairs
deriving Inhabited

abbrev PairM := Hash × Key × NodeM

/-- `Exists()` (ast/node.go:114) for a slot value -/
def NodeM.live : NodeM → Bool
  | .gone => false
  | _ => true

def pairLive (p : PairM) : Bool := p.2.2.live
def deadPair : PairM := (none, [], .gone)
/-- `NewPair` (ast/iterator.go:31) -/
def mkPair (k : Key) (v : NodeM) : PairM := (some k, k, v)
def rawPair (kv : Key × Tree) : PairM := mkPair kv.1 (.raw kv.2 false)

/-! ## the hash index (ast/buffer.go:190-206, 249-263) -/

def ixGet (m : Index) (h : Hash) : Option Nat :=
  match m with
  | [] => none
  | (h', i) :: r => if h' = h then some i else ixGet r h

def ixDel (m : Index) (h : Hash) : Index := m.filter (fun e => !(e.1 = h))
def ixSet (m : Index) (h : Hash) (i : Nat) : Index := (h, i) :: ixDel m h

/-- `BuildIndex` (ast/buffer.go:198) walks the slots from the last to the first, so the FIRST pair
    of a hash is the one that stays: slot `i` is written after all the slots behind it -/
def buildIndexAt : Nat → List PairM → Index
  | _, [] => []
  | i, p :: r => ixSet (buildIndexAt (i + 1) r) p.1 i

def buildIndex (st : List PairM) : Index := buildIndexAt 0 st

/-- `newObject` / `setObject` (ast/node.go:1993, 2004) -/
def mkObject (st : List PairM) : NodeM :=
  .obj st.length st (if st.length > 16 then some (buildIndex st) else none)

/-! ## soft deletion: positions of the live slots (ast/node.go:1481-1527) -/

/-- physical position of the `i`-th live slot: the loop of `nodeAt`/`pairAt` -/
def nthLive {α : Type} (live : α → Bool) : List α → Nat → Option Nat
  | [], _ => none
  | x :: xs, i =>
    if live x then
      (if i = 0 then some 0 else (nthLive live xs (i - 1)).map (· + 1))
    else (nthLive live xs i).map (· + 1)

/-- `nodeAt(i)` / `pairAt(i)` on a loaded container: the shortcut `p.At(i)` is taken when the
    physical size equals the logical length -/
def slotAt {α : Type} (live : α → Bool) (l : Nat) (st : List α) (i : Nat) : Option Nat :=
  if st.length ≠ l then nthLive live st i
  else if i < st.length then some i else none

/-- the tail loop of `Pop` (ast/node.go:919-926, 934-941) on the reversed store: emptied slots at the
    end are dropped, then one live slot; `true` when a live slot went -/
def popRev {α : Type} (live : α → Bool) : List α → List α × Bool
  | [] => ([], false)
  | x :: xs => if live x then (xs, true) else popRev live xs

def popLive {α : Type} (live : α → Bool) (st : List α) : List α × Bool :=
  let r := popRev live st.reverse
  (r.1.reverse, r.2)

/-! ## parsing one level (ast/node.go:2013 parseRaw, ast/parser.go:313 Parse) -/

/-- `Parser.Parse` with `loadOnce` and without `noLazy`: scalars are parsed, non-empty containers
    stay raw and get a lock (ast/parser.go:338-345, 360-367) -/
def childL : Tree → NodeM
  | .null => .null
  | .bool b => .bool b
  | .num l => .num l
  | .str s => .str s
  | .arr [] => .arr 0 []
  | .obj [] => .obj 0 [] none
  | v => .raw v true

def lockedPair (kv : Key × Tree) : PairM := mkPair kv.1 (childL kv.2)

/-- `parseRaw(false)`: without a lock the container becomes lazy with nothing parsed; with a lock
    (`noLazy` + `loadOnce`) one level is loaded at once -/
def parse1 (lock : Bool) : Tree → NodeM
  | .null => .null
  | .bool b => .bool b
  | .num l => .num l
  | .str s => .str s
  | .arr [] => .arr 0 []
  | .obj [] => .obj 0 [] none
  | .arr xs => if lock then .arr xs.length (xs.map childL) else .arrLazy [] xs
  | .obj kvs => if lock then mkObject (kvs.map lockedPair) else .objLazy [] kvs

/-- `checkRaw` (ast/node.go:195) -/
def NodeM.checkRaw : NodeM → NodeM
  | .raw v lock => parse1 lock v
  | n => n

/-- `skipAllIndex` / `skipAllKey` (ast/node.go:1529, 1544): the rest becomes raw children -/
def NodeM.skipAll : NodeM → NodeM
  | .arrLazy pre rest => .arr (pre.length + rest.length) (pre ++ rest.map (fun v => NodeM.raw v false))
  | .objLazy pre rest => mkObject (pre ++ rest.map rawPair)
  | n => n

/-- `loadAllIndex(true)` / `loadAllKey(true)` (ast/node.go:1642, 1660) -/
def NodeM.loadAllOnce : NodeM → NodeM
  | .arrLazy pre rest => .arr (pre.length + rest.length) (pre ++ rest.map childL)
  | .objLazy pre rest => mkObject (pre ++ rest.map lockedPair)
  | n => n

def mkLazyArr (pre : List NodeM) (rest : List Tree) : NodeM :=
  match rest with
  | [] => .arr pre.length pre                 -- `]` met: setArray (ast/parser.go:545-548)
  | _ => .arrLazy pre rest

def mkLazyObj (pre : List PairM) (rest : List (Key × Tree)) : NodeM :=
  match rest with
  | [] => mkObject pre                        -- `}` met: setObject (ast/parser.go:628-631)
  | _ => .objLazy pre rest

/-- the loop of `skipIndex` / `skipIndexPair` on a lazy array (ast/node.go:1608-1615 over
    `skipNextNode`, ast/parser.go:496): parse until more than `index` children are there -/
def skipIndexLazy (pre : List NodeM) : List Tree → Nat → NodeM × Option Nat
  | [], _ => (.arr pre.length pre, none)
  | x :: r, index =>
    let pre' := pre ++ [NodeM.raw x false]
    if pre'.length > index then (mkLazyArr pre' r, some (pre'.length - 1))
    else skipIndexLazy pre' r index

def skipIndexPairLazy (pre : List PairM) : List (Key × Tree) → Nat → NodeM × Option Nat
  | [], _ => (mkObject pre, none)
  | x :: r, index =>
    let pre' := pre ++ [rawPair x]
    if pre'.length > index then (mkLazyObj pre' r, some (pre'.length - 1))
    else skipIndexPairLazy pre' r index

/-- the loop of `skipKey` on a lazy object (ast/node.go:1585-1592 over `skipNextPair`) -/
def skipKeyLazy (pre : List PairM) : List (Key × Tree) → Key → NodeM × Option Nat
  | [], _ => (mkObject pre, none)
  | x :: r, key =>
    let pre' := pre ++ [rawPair x]
    if x.1 = key then (mkLazyObj pre' r, some (pre'.length - 1))
    else skipKeyLazy pre' r key

/-! ## key lookup in the pair store (ast/buffer.go:307 `linkedPairs.Get`) -/

/-- `Pair.unset` (ast/buffer.go): the zero `Pair{}` a soft delete leaves behind -/
def unsetPair (p : PairM) : Bool := p.1.isNone && p.2.1.isEmpty && !p.2.2.live

/-- the linear search: first slot whose `Key` equals `key` and which is not an unset pair -/
def linearGet (key : Key) : List PairM → Option Nat
  | [] => none
  | p :: r => if p.2.1 = key && !unsetPair p then some 0 else (linearGet key r).map (· + 1)

inductive Found where
  | at (i : Nat)
  | no
deriving Repr, DecidableEq

def linearFound (st : List PairM) (key : Key) : Found :=
  match linearGet key st with
  | some j => .at j
  | none => .no

/-- `linkedPairs.Get`: through the index when there is one; an entry that leads nowhere (slot popped
    since), to an unset pair or to another key falls back to the linear search -/
def pairsGet (st : List PairM) (ix : Option Index) (key : Key) : Found :=
  match ix with
  | some m =>
    match ixGet m (some key) with
    | some i =>
      match st[i]? with
      | none => linearFound st key
      | some p => if p.2.1 = key && !unsetPair p then .at i else linearFound st key
    | none => .no
  | none => linearFound st key

/-- `skipKey` (ast/node.go:1559) on a node that already passed `should(V_OBJECT)`;
    returns the node (lazy loading may have advanced) and the slot found -/
def NodeM.skipKey (n : NodeM) (key : Key) : NodeM × Found :=
  match n with
  | .obj l st ix => if l > 0 then (n, pairsGet st ix key) else (n, .no)
  | .objLazy pre rest =>
    match (if pre.length > 0 then linearGet key pre else none) with
    | some i => (n, .at i)
    | none =>
      let r := skipKeyLazy pre rest key
      (r.1, match r.2 with | some i => .at i | none => .no)
  | _ => (n, .no)

/-- `skipIndex` (ast/node.go:1597) / `skipIndexPair` (1620) -/
def NodeM.skipIndex (n : NodeM) (index : Nat) : NodeM × Option Nat :=
  match n with
  | .arr l st => if l > index then (n, slotAt NodeM.live l st index) else (n, none)
  | .obj l st _ => if l > index then (n, slotAt pairLive l st index) else (n, none)
  | .arrLazy pre rest =>
    if pre.length > index then (n, some index) else skipIndexLazy pre rest index
  | .objLazy pre rest =>
    if pre.length > index then (n, some index) else skipIndexPairLazy pre rest index
  | _ => (n, none)

/-! ## kinds -/

inductive Kind where
  | gone | null | bool | num | str | arr | obj
deriving Repr, DecidableEq

def Tree.kind : Tree → Kind
  | .null => .null | .bool _ => .bool | .num _ => .num | .str _ => .str
  | .arr _ => .arr | .obj _ => .obj

/-- `itype()` (ast/node.go:109): the type with the lazy and raw bits masked -/
def NodeM.kind : NodeM → Kind
  | .gone => .gone | .null => .null | .bool _ => .bool | .num _ => .num | .str _ => .str
  | .raw v _ => v.kind
  | .arrLazy _ _ => .arr | .arr _ _ => .arr
  | .objLazy _ _ => .obj | .obj _ _ _ => .obj

/-- the value held in physical slot `i` -/
def NodeM.childAt (n : NodeM) (i : Nat) : Option NodeM :=
  match n with
  | .arr _ st => st[i]?
  | .arrLazy pre _ => pre[i]?
  | .obj _ st _ => (st[i]?).map (·.2.2)
  | .objLazy pre _ => (pre[i]?).map (·.2.2)
  | _ => none

def setVal (st : List PairM) (i : Nat) (c : NodeM) : List PairM :=
  match st[i]? with
  | some p => st.set i (p.1, p.2.1, c)
  | none => st

/-- `*p = node` for the value in physical slot `i` -/
def NodeM.setChildAt (n : NodeM) (i : Nat) (c : NodeM) : NodeM :=
  match n with
  | .arr l st => .arr l (st.set i c)
  | .arrLazy pre rest => .arrLazy (pre.set i c) rest
  | .obj l st ix => .obj l (setVal st i c) ix
  | .objLazy pre rest => .objLazy (setVal pre i c) rest
  | n => n

/-! ## encoding (ast/encode.go:193-291) -/

mutual
/-- `encode`: the text and the node afterwards (a lazy container met on the way is loaded by
    `skipAllIndex`/`skipAllKey`, ast/encode.go:219, 261).  Texts are canonical (see `Tree.canon`). -/
def NodeM.encode : NodeM → Bytes × NodeM
  | .gone => ([], .gone)
  | .null => (Tree.null.canon, .null)
  | .bool b => ((Tree.bool b).canon, .bool b)
  | .num l => (l, .num l)
  | .str s => (canonStr s, .str s)
  | .raw v lock => (v.canon, .raw v lock)
  | .arr l st =>
    let r := encodeElems st
    (91 :: (joinComma r.1 ++ [93]), .arr l r.2)
  | .arrLazy pre rest =>
    let r := encodeElems pre
    (91 :: (joinComma (r.1 ++ rest.map Tree.canon) ++ [93]),
     .arr (pre.length + rest.length) (r.2 ++ rest.map (fun v => NodeM.raw v false)))
  | .obj l st ix =>
    let r := encodePairs st
    (123 :: (joinComma r.1 ++ [125]), .obj l r.2 ix)
  | .objLazy pre rest =>
    let r := encodePairs pre
    let st := r.2 ++ rest.map rawPair
    (123 :: (joinComma (r.1 ++ rest.map (fun kv => canonStr kv.1 ++ 58 :: kv.2.canon)) ++ [125]),
     mkObject st)
/-- texts of the live slots, and the slots afterwards -/
def encodeElems : List NodeM → List Bytes × List NodeM
  | [] => ([], [])
  | x :: xs =>
    let r := encodeElems xs
    if x.live then
      let e := x.encode
      (e.1 :: r.1, e.2 :: r.2)
    else (r.1, x :: r.2)
def encodePairs : List (Hash × Key × NodeM) → List Bytes × List (Hash × Key × NodeM)
  | [] => ([], [])
  | (h, k, v) :: xs =>
    let r := encodePairs xs
    if v.live then
      let e := v.encode
      ((canonStr k ++ 58 :: e.1) :: r.1, (h, k, e.2) :: r.2)
    else (r.1, (h, k, v) :: r.2)
end

/-- the canonical text of what a node holds (what `Raw()`/`MarshalJSON()` of a copy print) -/
def NodeM.canon (n : NodeM) : Bytes := n.encode.1

/-! ## SortKeys (ast/node.go:1179-1237, ast/buffer.go:400-415) -/

/-- `Sort()` (ast/buffer.go:413): the store ends in the unique stable arrangement; an index, when
    there is one, is dropped and rebuilt afterwards (first pair of a key wins again) -/
def sortStore (st : List PairM) (ix : Option Index) : List PairM × Option Index :=
  let st' : List PairM := sortBy (fun p => p.2.1) st
  (st', ix.map (fun _ => buildIndex st'))

/-- the representation `Parse` gives a member of a container that is loaded in one go:
    with a lock see `childL`; without, the iterator leaves raw children (ast/parser.go:527) -/
def kid (lock : Bool) (v : Tree) : NodeM := if lock then childL v else .raw v false

mutual
/-- `SortKeys(recurse)` reaching a raw container child through the scanner (ast/node.go:1188-1197,
    1219-1231): it is parsed, loaded completely, sorted, and its members are walked; scalars are
    not touched.  (`sortKeys(true)`'s scanner and `SortKeys(true)` do the same to a container.) -/
def sortRaw (recurse lock : Bool) : Tree → NodeM
  | .obj [] => .obj 0 [] none
  | .obj kvs =>
    let st : List (Hash × Key × NodeM) :=
      if recurse then sortRawPairs lock kvs else kvs.map (fun kv => mkPair kv.1 (kid lock kv.2))
    let r := sortStore st (if st.length > 16 then some (buildIndex st) else none)
    .obj st.length r.1 r.2
  | .arr [] => .arr 0 []
  | .arr xs => .arr xs.length (sortRawElems recurse lock xs)
  | v => kid lock v
def sortRawElems (recurse lock : Bool) : List Tree → List NodeM
  | [] => []
  | x :: xs => sortRaw recurse lock x :: sortRawElems recurse lock xs
def sortRawPairs (lock : Bool) : List (Key × Tree) → List (Hash × Key × NodeM)
  | [] => []
  | (k, x) :: xs => (some k, k, sortRaw true lock x) :: sortRawPairs lock xs
end

mutual
/-- `SortKeys(recurse)` as the scanner applies it to a child: containers are loaded, sorted and
    walked, anything else is left alone -/
def NodeM.sortM (recurse : Bool) : NodeM → NodeM
  | .raw v lock => if isContainer v then sortRaw recurse lock v else .raw v lock
  | .obj l st ix =>
    let r := sortStore (if recurse then sortPairsM st else st) ix
    .obj l r.1 r.2
  | .objLazy pre rest =>
    let st : List (Hash × Key × NodeM) :=
      if recurse then sortPairsM pre ++ sortRawPairs false rest else pre ++ rest.map rawPair
    let r := sortStore st (if st.length > 16 then some (buildIndex st) else none)
    .obj st.length r.1 r.2
  | .arr l st => .arr l (sortElemsM recurse st)
  | .arrLazy pre rest =>
    .arr (pre.length + rest.length) (sortElemsM recurse pre ++ sortRawElems recurse false rest)
  | n => n
def sortElemsM (recurse : Bool) : List NodeM → List NodeM
  | [] => []
  | x :: xs => x.sortM recurse :: sortElemsM recurse xs
def sortPairsM : List (Hash × Key × NodeM) → List (Hash × Key × NodeM)
  | [] => []
  | (h, k, v) :: xs => (h, k, v.sortM true) :: sortPairsM xs
end

/-! ## the operations (ast/node.go) -/

def retChild (c : Option NodeM) : Ret :=
  match c with
  | some c => if c.live then .val c.canon else .nx
  | none => .nx

/-- the index after `linkedPairs.Pop` has dropped the slots `i, i+1, ...` holding `ps`
    (ast/buffer.go:241-259): `Unset(j)` removes the entry of the pair's hash only when that entry
    names slot `j`.  (The code goes from the last slot down; an entry can only ever be removed by the
    one slot it names, so the order does not matter.) -/
def ixPopSlots (m : Index) : Nat → List PairM → Index
  | _, [] => m
  | i, p :: r => ixPopSlots (if ixGet m p.1 = some i then ixDel m p.1 else m) (i + 1) r

/-- one operation applied to the node itself -/
def NodeM.stepHere (n0 : NodeM) (op : Op) : Ret × NodeM :=
  match op with
  | .get k =>                                                    -- Get, ast/node.go:1026
    let n := n0.checkRaw
    if n.kind ≠ .obj then (.err .unsupported, n) else
    let r := n.skipKey k
    match r.2 with
    | .at i => (retChild (r.1.childAt i), r.1)
    | .no => (.nx, r.1)
  | .idx i =>                                                    -- Index, ast/node.go:1036
    let n := n0.checkRaw
    if n.kind ≠ .arr ∧ n.kind ≠ .obj then (.err .unsupported, n) else
    let r := n.skipIndex i
    match r.2 with
    | some j => (retChild (r.1.childAt j), r.1)
    | none => (.nx, r.1)
  | .len =>                                                      -- Len, ast/node.go:698
    let n := n0.checkRaw
    match n with
    | .arr l _ => (.n l, n)
    | .obj l _ _ => (.n l, n)
    | .arrLazy pre _ => (.n pre.length, n)
    | .objLazy pre _ => (.n pre.length, n)
    | .str s => (.n s.length, n)
    | .null => (.n 0, n)
    | .gone => (.n 0, n)
    | _ => (.err .unsupported, n)
  | .iter =>                                                     -- Values / Properties + Next
    let n := n0.checkRaw
    if n.kind ≠ .arr ∧ n.kind ≠ .obj then (.err .unsupported, n) else
    let n' := n.skipAll
    (.val n'.canon, n')
  | .set k v =>                                                  -- Set, ast/node.go:739
    let node := NodeM.raw v false
    let n := n0.checkRaw
    match n.kind with
    | .gone => (.b false, .obj 1 [mkPair k node] none)
    | .null => (.b false, .obj 1 [mkPair k node] none)
    | .obj =>
      let r := n.skipKey k
      (let hit : Option Nat := match r.2 with
           | .at i => (match r.1.childAt i with
             | some c => if c.live then some i else none
             | none => none)
           | _ => none
       match hit with
       | some i => (.b true, r.1.setChildAt i node)
       | none =>
         -- "self must be fully-loaded here"
         match r.1 with
         | .obj l st ix =>
           if l = 0 then (.b false, .obj 1 [mkPair k node] none)
           else (.b false, .obj (l + 1) (st ++ [mkPair k node]) (ix.map (fun m => ixSet m (some k) st.length)))
         | n' => (.b false, n'))
    | _ => (.err .unsupported, n)
  | .unset k =>                                                  -- Unset, ast/node.go:782
    let n := n0.checkRaw
    if n.kind ≠ .obj then (.err .unsupported, n) else
    let n1 := n.skipAll
    let r := n1.skipKey k
    (match r.2 with
     | .no => (.b false, r.1)
     | .at i =>
       match r.1, r.1.childAt i with
       | .obj l st ix, some c =>
         if c.live then (.b true, .obj (l - 1) (st.set i deadPair) ix) else (.b false, r.1)
       | n', _ => (.b false, n'))
  | .seti i v =>                                                 -- SetByIndex, ast/node.go:803
    let node := NodeM.raw v false
    let n := n0.checkRaw
    if i = 0 ∧ (n.kind = .gone ∨ n.kind = .null) then (.b false, .arr 1 [node]) else
    if n.kind ≠ .arr ∧ n.kind ≠ .obj then (.err .notfound, n) else
    let r := n.skipIndex i
    (match r.2 with
     | some j =>
       (match r.1.childAt j with
        | some c => if c.live then (.b true, r.1.setChildAt j node) else (.err .notfound, r.1)
        | none => (.err .notfound, r.1))
     | none => (.err .notfound, r.1))
  | .unseti i =>                                                 -- UnsetByIndex, ast/node.go:836
    let n := n0.checkRaw
    match n.kind with
    | .arr =>
      (match n.skipAll with
       | .arr l st =>
         (match slotAt NodeM.live l st i with
          | some j =>
            (match st[j]? with
             | some c =>
               if !c.live then (.err .notfound, .arr l st)
               else if i = l - 1 then
                 let p := popLive NodeM.live st
                 (.b true, .arr (if p.2 then l - 1 else l) p.1)
               else (.b true, .arr (l - 1) (st.set j .gone))
             | none => (.err .notfound, .arr l st))
          | none => (.err .notfound, .arr l st))
       | n' => (.err .notfound, n'))
    | .obj =>
      (match n.skipAll with
       | .obj l st ix =>
         (match slotAt pairLive l st i with
          | some j =>
            (match st[j]? with
             | some c =>
               if !pairLive c then (.err .notfound, .obj l st ix)
               else if i = l - 1 then
                 let p := popLive pairLive st
                 (.b true, .obj (if p.2 then l - 1 else l) p.1 (ix.map (fun m => ixPopSlots m p.1.length (st.drop p.1.length))))
               else (.b true, .obj (l - 1) (st.set j deadPair) ix)
             | none => (.err .notfound, .obj l st ix))
          | none => (.err .notfound, .obj l st ix))
       | n' => (.err .notfound, n'))
    | _ => (.err .unsupported, n)
  | .add v =>                                                    -- Add, ast/node.go:883
    let node := NodeM.raw v false
    let n := n0.checkRaw
    match n.kind with
    | .gone => (.ok, .arr 1 [node])
    | .null => (.ok, .arr 1 [node])
    | .arr =>
      (match n.skipAll with
       | .arr l st => (.ok, .arr (l + 1) (st ++ [node]))
       | n' => (.ok, n'))
    | _ => (.err .unsupported, n)
  | .pop =>                                                      -- Pop, ast/node.go:908
    let n := n0.checkRaw
    match n.kind with
    | .arr =>
      (match n.skipAll with
       | .arr l st =>
         let p := popLive NodeM.live st
         (.ok, .arr (if p.2 then l - 1 else l) p.1)
       | n' => (.ok, n'))
    | .obj =>
      (match n.skipAll with
       | .obj l st ix =>
         let p := popLive pairLive st
         (.ok, .obj (if p.2 then l - 1 else l) p.1 (ix.map (fun m => ixPopSlots m p.1.length (st.drop p.1.length))))
       | n' => (.ok, n'))
    | _ => (.err .unsupported, n)
  | .move d s =>                                                 -- Move, ast/node.go:954
    let n := n0.checkRaw
    if n.kind ≠ .arr then (.err .unsupported, n) else
    (match n.skipAll with
     | .arr l st =>
       if l ≠ st.length then
         -- unset nodes around: both indexes are looked up among the live slots; one that is not
         -- there makes the call a no-op
         (match nthLive NodeM.live st d, nthLive NodeM.live st s with
          | some d', some s' => (.ok, .arr l (moveElem st d' s'))
          | _, _ => (.ok, .arr l st))
       else (.ok, .arr l (moveElem st d s))
     | n' => (.ok, n'))
  | .sort r => (.ok, n0.checkRaw.sortM r)                        -- SortKeys, ast/node.go:1179
  | .load =>                                                     -- Load, ast/node.go:1452
    match n0 with
    | .raw v _ => (.ok, parse1 true v)
    | n => (.ok, n.loadAllOnce)
  | .raw =>                                                      -- Raw, ast/node.go:176
    let e := n0.encode
    (.val e.1, e.2)
  | .mar =>                                                      -- MarshalJSON, ast/encode.go:96
    let e := n0.encode
    (.val e.1, e.2)

/-- `Get(key)` / `Index(i)` used to walk towards the addressed node -/
def NodeM.locate (n0 : NodeM) (s : Sel) : NodeM × Option Nat :=
  let n := n0.checkRaw
  match s with
  | .key k =>
    if n.kind ≠ .obj then (n, none) else
    let r := n.skipKey k
    (match r.2 with
     | .at i => (r.1, some i)
     | .no => (r.1, none))
  | .idx i =>
    if n.kind ≠ .arr ∧ n.kind ≠ .obj then (n, none) else
    n.skipIndex i

/-- an operation addressed to the node reached by `path` from the root; the walk itself is made of
    `Get`/`Index` calls and loads what they load -/
def NodeM.stepAt (n : NodeM) : List Sel → Op → Ret × NodeM
  | [], op => n.stepHere op
  | s :: p, op =>
    let r := n.locate s
    match r.2 with
    | none => (.notarget, r.1)
    | some i =>
      match r.1.childAt i with
      | none => (.notarget, r.1)
      | some c =>
        if c.live then
          let q := c.stepAt p op
          (q.1, r.1.setChildAt i q.2)
        else (.notarget, r.1)

def stepM (n : NodeM) (o : POp) : Ret × NodeM := n.stepAt o.path o.op

/-- run a whole sequence; after each step the canonical text of the root as a *copy* of it would
    marshal (the node itself is not touched by that observation) -/
def runM : NodeM → List POp → List (Ret × Bytes) × NodeM
  | n, [] => ([], n)
  | n, o :: os =>
    let r := stepM n o
    let rest := runM r.2 os
    ((r.1, r.2.canon) :: rest.1, rest.2)

/-- the node `ast.NewRaw(doc)` / `sonic.Get(doc)` (lock = false) or `NewRawConcurrentRead` returns -/
def newRaw (doc : Tree) (lock : Bool) : NodeM := .raw doc lock

/-- one letter for the hidden representation (evidence / matchers only) -/
def NodeM.repr1 : NodeM → Char
  | .gone => 'x'
  | .raw _ _ => 'r'
  | .arrLazy _ _ => 'z'
  | .objLazy _ _ => 'z'
  | .arr _ _ => 'L'
  | .obj _ _ _ => 'L'
  | _ => 's'

end SonicSpec.Ast
