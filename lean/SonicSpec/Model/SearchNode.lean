/-
  C14: the Go lazy loader behind `Node.Get / Index / GetByPath` as a BYTE-LEVEL incremental loader.
  Core Lean only.

  A raw node is its text.  The first access parses one layer (`Node.checkRaw` -> `parseRaw` ->
  `Parser.Parse`, ast/node.go:195/2013, ast/parser.go:311): an object / array becomes LAZY: a parser
  position inside the text plus the children loaded so far (`parseObjectStack` / `parseArrayStack`).
  `skipNextPair` / `skipNextNode` (parser.go:554 / 496) load ONE more child with the fast skipper and
  keep its raw text; `skipKey` / `skipIndex` / `skipIndexPair` (node.go:1559/1597/1620) first look at
  what is loaded and then keep loading.  The state below is exactly (position, loaded prefix).
  Children are kept as raw text: a child reached through a longer path is modelled as a fresh raw node
  (in Go its own lazy state is also remembered inside the parent; that persistence is exercised by the
  `c14seq` correspondence stream only).
-/
import SonicSpec.Model.SearchViews
namespace SonicSpec.Search
open SonicSpec SonicSpec.Json

/-- `_V_OBJECT_LAZY`: `pos = some p` - the parser stands at `p` (after `{` or after a `,`);
    `pos = none` - the closing brace has been read (`setObject`, the node is a plain V_OBJECT).
    `pairs`: decoded key and raw value text of every loaded member, in document order. -/
structure LazyObj where
  pos : Option Bytes
  pairs : List (Bytes × Bytes)
deriving Repr

/-- `_V_ARRAY_LAZY` -/
structure LazyArr where
  pos : Option Bytes
  elems : List Bytes
deriving Repr

/-- `skipNextPair` (parser.go:554): load one more member.  Result: the new state and the pair that
    was pushed (`none`: the end of the object was found instead); outer `none`: a syntax-error node. -/
def nextPair (o : LazyObj) : Option (LazyObj × Option (Bytes × Bytes)) :=
  match o.pos with
  | none => some (o, none)
  | some p =>
    match skipWs p with
    | [] => none
    | c :: t =>
      if c == 125 then some ({ o with pos := none }, none)
      else if c != 34 then none
      else
        match strEnd t with
        | none => none
        | some (kb, r1) =>
          match skipWs r1 with
          | 58 :: r2 =>
            match skipFast r2 with
            | none => none
            | some (st, r3) =>
              -- key through `unquote.String` when it has an escape (lone surrogates read U+FFFD)
              let pair := (unescapeKey kb, rawOf (st, r3))
              match skipWs r3 with
              | 44 :: t' => some ({ pos := some t', pairs := o.pairs ++ [pair] }, some pair)
              | 125 :: _ => some ({ pos := none, pairs := o.pairs ++ [pair] }, some pair)
              | _ => none
          | _ => none

/-- `skipNextNode` (parser.go:496) -/
def nextElem (a : LazyArr) : Option (LazyArr × Option Bytes) :=
  match a.pos with
  | none => some (a, none)
  | some p =>
    match skipWs p with
    | [] => none
    | c :: _ =>
      if c == 93 then some ({ a with pos := none }, none)
      else
        match skipFast p with
        | none => none
        | some (st, r) =>
          let raw := rawOf (st, r)
          match skipWs r with
          | 44 :: t' => some ({ pos := some t', elems := a.elems ++ [raw] }, some raw)
          | 93 :: _ => some ({ pos := none, elems := a.elems ++ [raw] }, some raw)
          | _ => none

/-- `linkedPairs.Get` (ast/buffer.go:307, with the first-occurrence index of commit b15b579) -/
def findPair (k : Bytes) : List (Bytes × Bytes) → Option Bytes
  | [] => none
  | (k', raw) :: r => if k' = k then some raw else findPair k r

/-- lazy part of `skipKey` (node.go:1583): keep loading until the key shows up or the object ends -/
def getKeyLoop (k : Bytes) : Nat → LazyObj → Option (LazyObj × Option Bytes)
  | 0, o => some (o, none)
  | n + 1, o =>
    match nextPair o with
    | none => none
    | some (o', none) => some (o', none)
    | some (o', some (k', raw)) => if k' = k then some (o', some raw) else getKeyLoop k n o'

def posLen : Option Bytes → Nat
  | none => 0
  | some p => p.length

/-- `skipKey` (node.go:1559): loaded pairs first, then the lazy loop -/
def getKey (k : Bytes) (o : LazyObj) : Option (LazyObj × Option Bytes) :=
  match findPair k o.pairs with
  | some raw => some (o, some raw)
  | none => getKeyLoop k (posLen o.pos + 1) o

/-- lazy part of `skipIndexPair` (node.go:1620): load until more than `i` pairs are there -/
def idxPairLoop (i : Nat) : Nat → LazyObj → Option (LazyObj × Option Bytes)
  | 0, o => some (o, none)
  | n + 1, o =>
    match nextPair o with
    | none => none
    | some (o', none) => some (o', none)
    | some (o', some (_, raw)) => if o'.pairs.length > i then some (o', some raw) else idxPairLoop i n o'

/-- `skipIndexPair`: `Node.Index(i)` on an OBJECT returns the value of its i-th pair (documented) -/
def getIdxPair (i : Nat) (o : LazyObj) : Option (LazyObj × Option Bytes) :=
  match o.pairs[i]? with
  | some (_, raw) => some (o, some raw)
  | none => idxPairLoop i (posLen o.pos + 1) o

/-- lazy part of `skipIndex` (node.go:1597) -/
def idxLoop (i : Nat) : Nat → LazyArr → Option (LazyArr × Option Bytes)
  | 0, a => some (a, none)
  | n + 1, a =>
    match nextElem a with
    | none => none
    | some (a', none) => some (a', none)
    | some (a', some raw) => if a'.elems.length > i then some (a', some raw) else idxLoop i n a'

def getIdx (i : Nat) (a : LazyArr) : Option (LazyArr × Option Bytes) :=
  match a.elems[i]? with
  | some raw => some (a, some raw)
  | none => idxLoop i (posLen a.pos + 1) a

/-- a node: raw text, one lazily loaded layer, or something without children -/
inductive LNode where
  | raw (text : Bytes)
  | obj (o : LazyObj)
  | arr (a : LazyArr)
  | other
deriving Repr

/-- `parseRaw` -> `Parser.Parse` in lazy mode (parser.go:311): an empty container is complete at
    once, a non-empty one becomes lazy with the parser standing after its opening bracket -/
def parseRaw (t : Bytes) : LNode :=
  match skipWs t with
  | 123 :: r =>
    match skipWs r with
    | 125 :: _ => .obj { pos := none, pairs := [] }
    | _ => .obj { pos := some r, pairs := [] }
  | 91 :: r =>
    match skipWs r with
    | 93 :: _ => .arr { pos := none, elems := [] }
    | _ => .arr { pos := some r, elems := [] }
  | _ => .other

/-- `checkRaw` -/
def force : LNode → LNode
  | .raw t => parseRaw t
  | n => n

/-- one `Node.Get(key)` / `Node.Index(i)` on a node: the new state of the node and the raw text of
    the child that is returned (`none`: nil / error node) -/
def nodeStep (n : LNode) (e : PathElem) : LNode × Option Bytes :=
  match force n, e with
  | .obj o, .key k =>
    match getKey k o with
    | some (o', a) => (.obj o', a)
    | none => (.obj o, none)
  | .obj o, .idx i =>
    if i < 0 then (.obj o, none)
    else match getIdxPair i.toNat o with
      | some (o', a) => (.obj o', a)
      | none => (.obj o, none)
  | .arr a, .idx i =>
    if i < 0 then (.arr a, none)
    else match getIdx i.toNat a with
      | some (a', r) => (.arr a', r)
      | none => (.arr a, none)
  | n', _ => (n', none)

/-- a sequence of Get / Index calls on ONE node: the answers, in order -/
def nodeRun : LNode → List PathElem → List (Option Bytes)
  | _, [] => []
  | n, e :: es => let (n', a) := nodeStep n e; a :: nodeRun n' es

/-- `Node.GetByPath`: the first step on the node itself, the rest on the returned child -/
def nodeGetByPath : LNode → Path → LNode × Option Bytes
  | n, [] => (n, none)
  | n, [e] => nodeStep n e
  | n, e :: p =>
    match nodeStep n e with
    | (n', some raw) => (n', (nodeGetByPath (.raw raw) p).2)
    | (n', none) => (n', none)

/-- a sequence of GetByPath calls on one root -/
def nodeRunPaths : LNode → List Path → List (Option Bytes)
  | _, [] => []
  | n, p :: ps => let (n', a) := nodeGetByPath n p; a :: nodeRunPaths n' ps

/-- the specification of one step (the documented Node API: `Index` also addresses the pairs of an
    object) -/
def stepSpec (d : JVal) (e : PathElem) : Option JVal :=
  match d, e with
  | .obj kvs, .key k => lookupKey k kvs
  | .obj kvs, .idx i => if i < 0 then none else (kvs[i.toNat]?).map (·.2)
  | .arr xs, .idx i => if i < 0 then none else xs[i.toNat]?
  | _, _ => none

/-- what a path denotes for the Node API (= `locateNode false`, as an option) -/
def pathSpec : JVal → Path → Option JVal
  | _, [] => none
  | d, [e] => stepSpec d e
  | d, e :: p => (stepSpec d e).bind fun w => pathSpec w p

end SonicSpec.Search
