/-
  Core G (C09): the bookkeeping of the ALTERNATIVE decoder's compiler (internal/decoder/optdec/compiler.go,
  compile_struct.go) and of its Pretouch rounds (optdec/decoder.go:135-175) as a small history machine.
  Core Lean only.

  What is modelled is the state that decides WHICH decoder a type gets:
    depth     (`enter`/`exit`, compared with `MaxInlineDepth+1` in `compileStruct`),
    counts    (number of `compileBasic` calls completed so far; `counts > 0 ∧ NumField ≥ 50` defers a struct),
    namedPtr  (set by `compilePtr` for a defined pointer type, consumed by the next `compileStruct`:
               the element struct is compiled in place, issue 379),
  over finite type trees (the `visited` set only matters for recursive types and is left out: a tree cannot
  revisit a node).  Field lists are encoded inside the same inductive type (`fnil`/`fcons`).
-/
namespace SonicSpec.Conc.Optdec

/-- types as the compiler sees them -/
inductive OTy where
  | prim                                   -- bool, ints, floats, string, …
  | str (id : Nat) (unm : Bool) (nf : Nat) (fields : OTy)
                                           -- struct `id`; `unm`: its pointer type implements (Text)Unmarshaler;
                                           -- `nf` = NumField(); resolved field types as an `fcons` list
  | ptr (e : OTy)                          -- *T
  | nptr (e : OTy)                         -- defined pointer type  `type Ref *T`
  | seq (e : OTy)                          -- slice / array / map value
  | fnil
  | fcons (h : OTy) (t : OTy)
deriving DecidableEq, Repr

/-- decoders (`decFunc` trees) -/
inductive ODec where
  | prim
  | unm (id : Nat)                         -- unmarshalJSONDecoder / unmarshalTextDecoder
  | body (id : Nat) (fields : ODec)        -- structDecoder compiled in place
  | defer (t : OTy)                        -- recuriveDecoder{typ}: looks `t` up in the program cache at run time
  | ptr (d : ODec)
  | seq (d : ODec)
  | dnil
  | dcons (h : ODec) (t : ODec)
deriving DecidableEq, Repr

structure CS where
  depth : Nat
  counts : Nat
  namedPtr : Bool
deriving DecidableEq, Repr

/-- `newCompiler()` -/
def CS.fresh : CS := { depth := 0, counts := 0, namedPtr := false }

def maxFields : Nat := 50   -- `_MAX_FIELDS`

/-- `compile` (compiler.go:108) when `basic = false`: the pointer-receiver Unmarshaler test comes first;
    `compileBasic` (compiler.go:123) when `basic = true` (what `compilePtr` calls for a defined pointer type).
    `order` selects the shape of `compileStruct`: `true` = the code as it is (namedPtr rule BEFORE the
    depth/width test, compile_struct.go:127-142), `false` = the depth/width test first. -/
def compileAux (order : Bool) (maxInline : Nat) : OTy → Bool → CS → ODec × CS
  | .prim, _, cs => (.prim, { cs with counts := cs.counts + 1 })
  | .str id unm nf fields, basic, cs =>
    if unm && !basic then (.unm id, cs)      -- tryCompilePtrUnmarshaler: returns before compileBasic
    else
      -- compileStruct: enter
      let cs := { cs with depth := cs.depth + 1 }
      let deferIt := decide (cs.depth ≥ maxInline + 1) || (decide (cs.counts > 0) && decide (nf ≥ maxFields))
      let inPlace := if order then cs.namedPtr || !deferIt else !deferIt
      let cs := if order then { cs with namedPtr := false }
                else (if deferIt then cs else { cs with namedPtr := false })
      let (d, cs) := if inPlace then
          let (fs, cs) := compileAux order maxInline fields false cs
          (ODec.body id fs, cs)
        else (ODec.defer (.str id unm nf fields), cs)
      -- exit, then the deferred `counts += 1` of compileBasic
      (d, { cs with depth := cs.depth - 1, counts := cs.counts + 1 })
  | .ptr e, _, cs =>
    let cs := { cs with depth := cs.depth + 1 }
    let (d, cs) := compileAux order maxInline e false cs
    (.ptr d, { cs with depth := cs.depth - 1, counts := cs.counts + 1 })
  | .nptr e, _, cs =>
    let cs := { cs with depth := cs.depth + 1, namedPtr := true }
    let (d, cs) := compileAux order maxInline e true cs
    (.ptr d, { cs with depth := cs.depth - 1, counts := cs.counts + 1 })
  | .seq e, _, cs =>
    let cs := { cs with depth := cs.depth + 1 }
    let (d, cs) := compileAux order maxInline e false cs
    (.seq d, { cs with depth := cs.depth - 1, counts := cs.counts + 1 })
  | .fnil, _, cs => (.dnil, cs)
  | .fcons h t, _, cs =>
    let (dh, cs) := compileAux order maxInline h false cs
    let (dt, cs) := compileAux order maxInline t false cs
    (.dcons dh dt, cs)

/-- the code as it is -/
def compile (maxInline : Nat) (t : OTy) (cs : CS) : ODec × CS := compileAux true maxInline t false cs

/-- the decoder a FRESH compiler builds for `t` (what `findOrCompile` and `pretouchType` store) -/
def compileFresh (maxInline : Nat) (t : OTy) : ODec := (compile maxInline t CS.fresh).1

def lookup (t : OTy) : List (OTy × ODec) → Option ODec
  | [] => none
  | (t', d) :: r => if t' = t then some d else lookup t r

/-- `pretouchType` (decoder.go:135): already cached → nothing; else a NEW compiler compiles the type -/
def pretouchType (maxInline : Nat) (cache : List (OTy × ODec)) (t : OTy) : List (OTy × ODec) :=
  match lookup t cache with
  | some _ => cache
  | none => (t, compileFresh maxInline t) :: cache

/-- one round of `pretouchRec`: the map is walked in whatever order (= the order of `ts`) -/
def pretouchRound (maxInline : Nat) (cache : List (OTy × ODec)) (ts : List OTy) : List (OTy × ODec) :=
  ts.foldl (pretouchType maxInline) cache

/-- `pretouchRec` (decoder.go:155): `rounds` further rounds, the next round's types are the ones the compilers
    entered (`subs`, abstract here: any function) -/
def pretouchRec (maxInline : Nat) (subs : OTy → List OTy) : Nat → List (OTy × ODec) → List OTy → List (OTy × ODec)
  | 0, cache, ts => pretouchRound maxInline cache ts
  | n + 1, cache, ts => pretouchRec maxInline subs n (pretouchRound maxInline cache ts) (ts.flatMap subs)

/-! ### a Pretouch round that shares ONE compiler (hence its `counts`) between its members - not the code as
    it is; kept as the documented counter-model -/
namespace Shared

def pretouchType (maxInline : Nat) (st : List (OTy × ODec) × CS) (t : OTy) : List (OTy × ODec) × CS :=
  match lookup t st.1 with
  | some _ => st
  | none => let (d, cs) := compile maxInline t st.2; ((t, d) :: st.1, cs)

def pretouchRound (maxInline : Nat) (cache : List (OTy × ODec)) (ts : List OTy) : List (OTy × ODec) :=
  (ts.foldl (pretouchType maxInline) (cache, CS.fresh)).1

end Shared

end SonicSpec.Conc.Optdec
