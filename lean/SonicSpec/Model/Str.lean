/-
  Core B (strings), executable model.  Core Lean only.

  Sources transliterated:
    native/parsing.h:30   _SingleQuoteTab                 -> `quoteByte`
    native/parsing.h:67   _DoubleQuoteTab                 -> `quoteByteD`
    native/quote.c        quote (restartable)             -> `quoteCall`
    internal/encoder/alg/spec.go:64 Quote (grow + retry)  -> `quoteLoop`, `quote`, `quoteD`
    native/parsing.h:383  _UnquoteTab                     -> `simpleEsc` (+ the `u` entry handled in `escBody`)
    native/parsing.h:481-502 ishex/unhex16_is/unhex16_fast-> `hex4`
    native/unquote.c      unquote                         -> `unquote unirep dbl`
    unquote/unquote.go:30 String = unquote with F_UNICODE_REPLACE
  UTF-8 and HTML parts: Model/StrUtf8.lean, Model/StrHtml.lean.
-/
import SonicSpec.Model.Hex
import SonicSpec.Model.StrUtf8
import SonicSpec.Model.StrHtml
namespace SonicSpec.Str

def hexLow (n : UInt8) : UInt8 := if n < 10 then 48 + n else 87 + n

/-- image of one input byte inside a JSON string literal (single quoting, parsing.h:30) -/
def quoteByte (c : UInt8) : Bytes :=
  if c == 34 then [92, 34]
  else if c == 92 then [92, 92]
  else if c == 9 then [92, 116]
  else if c == 10 then [92, 110]
  else if c == 13 then [92, 114]
  else if c < 32 then [92, 117, 48, 48, hexLow (c / 16), hexLow (c % 16)]
  else [c]

/-- image of one input byte in double quoting (a literal inside a literal, parsing.h:67) -/
def quoteByteD (c : UInt8) : Bytes :=
  if c == 34 then [92, 92, 92, 34]
  else if c == 92 then [92, 92, 92, 92]
  else if c == 9 then [92, 92, 116]
  else if c == 10 then [92, 92, 110]
  else if c == 13 then [92, 92, 114]
  else if c < 32 then [92, 92, 117, 48, 48, hexLow (c / 16), hexLow (c % 16)]
  else [c]

def quoteBody (s : Bytes) : Bytes := s.flatMap quoteByte
def quoteBodyD (s : Bytes) : Bytes := s.flatMap quoteByteD

/-- One native call (quote.c) with `room` bytes left in the destination: images are written while they
    fit (plain bytes one by one up to the room, parsing.h:135 memcchr_quote; an escape only when it fits
    entirely, quote.c:47-50); returns what was written and the unconsumed input. -/
def quoteCall (tab : UInt8 → Bytes) : Nat → Bytes → Bytes × Bytes
  | _, [] => ([], [])
  | room, c :: t =>
    if room < (tab c).length then ([], c :: t)
    else match quoteCall tab (room - (tab c).length) t with
      | (o, r) => (tab c ++ o, r)

/-- spec.go:64 `Quote`: repeat the native call on the rest with a grown buffer until the input is
    consumed.  `rooms` = free space offered to the successive calls (any growth policy); unbounded once
    the list is used up (the real policy doubles the capacity). -/
def quoteLoop (tab : UInt8 → Bytes) : List Nat → Bytes → Bytes → Bytes
  | [], buf, src => buf ++ src.flatMap tab
  | room :: rooms, buf, src =>
    match quoteCall tab room src with
    | (o, []) => buf ++ o
    | (o, r) => quoteLoop tab rooms (buf ++ o) r

/-- `encoder.Quote` (spec.go:64 with double = false) -/
def quote (s : Bytes) : Bytes := 34 :: (quoteBody s ++ [34])

/-- spec.go:64 with double = true (what a `,string` field of type string is encoded as) -/
def quoteD (s : Bytes) : Bytes := [34, 92, 34] ++ quoteBodyD s ++ [92, 34, 34]

/-! ### unquote -/

/-- native error kinds of `unquote` (types.go:83-86) -/
inductive UErr where
  | eof       -- ERR_EOF
  | escape    -- ERR_INVALID_ESCAPE
  | inval     -- ERR_INVALID_CHAR
  | unicode   -- ERR_INVALID_UNICODE
  deriving DecidableEq, Repr

instance : DecidableEq (Except UErr Bytes)
  | .ok a, .ok b => if h : a = b then isTrue (by rw [h]) else isFalse (by intro e; cases e; exact h rfl)
  | .error a, .error b => if h : a = b then isTrue (by rw [h]) else isFalse (by intro e; cases e; exact h rfl)
  | .ok _, .error _ => isFalse (by intro e; cases e)
  | .error _, .ok _ => isFalse (by intro e; cases e)

/-- parsing.h:383 `_UnquoteTab` without the `u` entry -/
def simpleEsc (c : UInt8) : Option UInt8 :=
  if c == 34 then some 34
  else if c == 47 then some 47
  else if c == 92 then some 92
  else if c == 98 then some 8
  else if c == 102 then some 12
  else if c == 110 then some 10
  else if c == 114 then some 13
  else if c == 116 then some 9
  else none

/-- parsing.h:491-502: four hexadecimal digits (either case) -/
def hex4 (a b c d : UInt8) : Option Nat :=
  match hexVal a, hexVal b, hexVal c, hexVal d with
  | some x, some y, some z, some w => some (x.toNat * 4096 + y.toNat * 256 + z.toNat * 16 + w.toNat)
  | _, _, _, _ => none

/-- U+FFFD (parsing.h:485 unirep) -/
def fffd : Bytes := [239, 191, 189]

/-- a lone surrogate half (unquote.c:142-149, 164-172): U+FFFD or ERR_INVALID_UNICODE -/
def lone (unirep : Bool) (sp : Bytes) : Except UErr (Bytes × Bytes) :=
  if unirep then .ok (fffd, sp) else .error .unicode

/-- unquote.c:134-138: in double mode one extra backslash in front of the second escape is skipped -/
def skipDbl (dbl : Bool) (sp : Bytes) : Bytes :=
  if dbl then (match sp with
    | e :: t => if e == 92 then t else sp
    | [] => sp) else sp

/-- unquote.c:141-190: `r0` is a surrogate code unit, `sp` the input behind its escape.
    `goto retry_decode` with `r0 = r1` (unquote.c:160-163) is modelled by handing the second escape
    back to the main loop un-consumed: the loop then executes exactly the statements of lines 20-96 with
    `sp[-1] = 'u'` and arrives at `retry_decode` in the same state (in double mode the skipped extra
    backslash stays skipped, which is also what the C code does). -/
def pairRune (unirep : Bool) (r0 : Nat) (sp : Bytes) : Except UErr (Bytes × Bytes) :=
  match sp with
  | e :: u :: a :: b :: c :: d :: rest =>
    if e != 92 || u != 117 || r0 > 56319 then lone unirep sp          -- unquote.c:142
    else
      match hex4 a b c d with
      | none => .error .inval                                         -- unquote.c:152-156
      | some r1 =>
        if r1 < 56320 || r1 > 57343 then lone unirep sp               -- unquote.c:164-172
        else .ok (encodeScalar ((r0 - 55296) * 1024 + (r1 - 56320) + 65536), rest)
  | _ => lone unirep sp                                               -- unquote.c:142-149

/-- unquote.c:98-190 (`retry_decode`): the code unit `r0` of a `\uXXXX` just read, `sp` = input behind it.
    Returns the bytes written and the input still to be processed. -/
def decodeRune (unirep dbl : Bool) (r0 : Nat) (sp : Bytes) : Except UErr (Bytes × Bytes) :=
  if r0 < 55296 || r0 > 57343 then .ok (encodeScalar r0, sp)          -- unquote.c:102-123
  else if dbl && sp.isEmpty then
    (if unirep then .ok (fffd, []) else .error .eof)                  -- unquote.c:127-133
  else pairRune unirep r0 (skipDbl dbl sp)

/-- unquote.c:68-96: `c` is the character after the backslash(es), `sp` the input behind it -/
def escBody (unirep dbl : Bool) (c : UInt8) (sp : Bytes) : Except UErr (Bytes × Bytes) :=
  if c == 117 then
    match sp with
    | a :: b :: c :: d :: rest =>
      match hex4 a b c d with
      | none => .error .inval                                         -- unquote.c:86-90
      | some r0 => decodeRune unirep dbl r0 rest
    | _ => .error .eof                                                -- unquote.c:80-83
  else
    match simpleEsc c with
    | some v => .ok ([v], sp)                                         -- unquote.c:74-77
    | none => .error .escape                                          -- unquote.c:68-71

/-- unquote.c:20-66: `t` is the input behind a backslash -/
def escStep (unirep dbl : Bool) (t : Bytes) : Except UErr (Bytes × Bytes) :=
  match t with
  | [] => .error .eof                                                 -- unquote.c:24-27
  | c1 :: sp =>
    if dbl then
      match sp with
      | [] => .error .eof                                             -- unquote.c:35-38
      | x :: sp' =>
        if c1 == 92 then
          if x == 92 then
            match sp' with
            | [] => .error .eof                                       -- unquote.c:44-46
            | y :: sp'' =>
              if y != 34 && y != 92 then .error .inval                -- unquote.c:47-49
              else escBody unirep dbl y sp''                          -- unquote.c:50-58
          else escBody unirep dbl x sp'                               -- unquote.c:56-58
        else escBody unirep dbl c1 sp
    else escBody unirep dbl c1 sp

theorem lone_rest {unirep : Bool} {sp o r : Bytes} (h : lone unirep sp = .ok (o, r)) : r = sp := by
  unfold lone at h
  split at h
  · cases h; rfl
  · cases h

theorem skipDbl_le (dbl : Bool) (sp : Bytes) : (skipDbl dbl sp).length ≤ sp.length := by
  unfold skipDbl
  split
  · split
    · split <;> simp
    · simp
  · simp

theorem pairRune_rest_le {unirep : Bool} {r0 : Nat} {sp o r : Bytes}
    (h : pairRune unirep r0 sp = .ok (o, r)) : r.length ≤ sp.length := by
  unfold pairRune at h
  split at h
  · split at h
    · rw [lone_rest h]; simp
    · split at h
      · cases h
      · split at h
        · rw [lone_rest h]; simp
        · simp only [Except.ok.injEq, Prod.mk.injEq] at h
          obtain ⟨_, rfl⟩ := h
          simp only [List.length_cons]; omega
  · rw [lone_rest h]; simp

theorem decodeRune_rest_le {unirep dbl : Bool} {r0 : Nat} {sp o r : Bytes}
    (h : decodeRune unirep dbl r0 sp = .ok (o, r)) : r.length ≤ sp.length := by
  unfold decodeRune at h
  split at h
  · cases h; simp
  · split at h
    · split at h
      · cases h; simp
      · cases h
    · exact Nat.le_trans (pairRune_rest_le h) (skipDbl_le _ _)

theorem escBody_rest_le {unirep dbl : Bool} {c : UInt8} {sp o r : Bytes}
    (h : escBody unirep dbl c sp = .ok (o, r)) : r.length ≤ sp.length := by
  unfold escBody at h
  split at h
  · split at h
    · split at h
      · cases h
      · have := decodeRune_rest_le h; simp only [List.length_cons]; omega
    · cases h
  · split at h
    · cases h; simp
    · cases h

theorem escStep_rest_le {unirep dbl : Bool} {t o r : Bytes}
    (h : escStep unirep dbl t = .ok (o, r)) : r.length ≤ t.length := by
  unfold escStep at h
  split at h
  · cases h
  · split at h
    · split at h
      · cases h
      · split at h
        · split at h
          · split at h
            · cases h
            · split at h
              · cases h
              · have := escBody_rest_le h; simp only [List.length_cons] at *; omega
          · have := escBody_rest_le h; simp only [List.length_cons] at *; omega
        · have := escBody_rest_le h; simp only [List.length_cons] at *; omega
    · have := escBody_rest_le h; simp only [List.length_cons] at *; omega

/-- `pre` was written; then the rest of the input is processed -/
def consOk (pre : Bytes) : Except UErr Bytes → Except UErr Bytes
  | .ok o => .ok (pre ++ o)
  | .error e => .error e

/-- native/unquote.c `unquote(sp, nb, dp, ep, flags)`: `unirep` = F_UNICODE_REPLACE, `dbl` = F_DOUBLE_UNQUOTE.
    Bytes other than a backslash are copied (memcchr_p32, unquote.c:11,197). -/
def unquote (unirep dbl : Bool) (s : Bytes) : Except UErr Bytes :=
  match s with
  | [] => .ok []
  | c :: t =>
    if c == 92 then
      match _h : escStep unirep dbl t with
      | .error e => .error e
      | .ok (o, r) => consOk o (unquote unirep dbl r)
    else consOk [c] (unquote unirep dbl t)
termination_by s.length
decreasing_by
  · have := escStep_rest_le _h
    simp only [List.length_cons]; omega
  · simp

/-- `unquote.String` (unquote/unquote.go:30) -/
def unquoteString (s : Bytes) : Except UErr Bytes := unquote true false s

/-! ### the same routines behind Marshal / Unmarshal -/

/-- internal/encoder/encoder.go:225 `encodeFinish`: HTML escaping first, then (ValidateString) every
    ill-formed byte replaced by the six characters `�` -/
def encodeFinish (escHtml validStr : Bool) (buf : Bytes) : Bytes :=
  let b1 := if escHtml then htmlEscape buf else buf
  if validStr && !validate b1 then correctWith [92, 117, 102, 102, 102, 100] b1 else b1

/-- body of a JSON string as the decoder's scanner delimits it (vstring): every backslash takes the next
    byte with it, a bare quote ends the string.  `true` when `b` placed between two quotes is exactly
    one string token. -/
def scanBodyOk : Bytes → Bool
  | [] => true
  | 92 :: _ :: t => scanBodyOk t
  | [92] => false
  | c :: t => if c == 34 then false else scanBodyOk t

def hasCtl (s : Bytes) : Bool := s.any (· < 32)

/-- decoding the document `"` body `"` into a Go string: `std` = ConfigStd (whole document corrected with
    U+FFFD first, internal/decoder/jitdec/decoder.go:55, then control characters rejected), `uerr` =
    OptionUseUnicodeErrors (no F_UNICODE_REPLACE), `dbl` = the `,string` form (body is the part between
    `\"` and `\"`, assembler_regabi_amd64.go:1496 + 938). `none` = any error. -/
def decodeString (std uerr dbl : Bool) (body : Bytes) : Option Bytes :=
  let b := if std then correctWith fffd body else body
  if !scanBodyOk b then none
  else if std && hasCtl b then none
  else match unquote (!uerr) dbl b with
    | .ok o => some o
    | .error _ => none

/-- what "double unquoting" means (and what encoding/json does for a `,string` field): unquote, then
    unquote the result.  `unquote _ true` is sonic's one-pass version of it. -/
def unquoteTwice (unirep : Bool) (s : Bytes) : Except UErr Bytes :=
  match unquote unirep false s with
  | .ok o => unquote unirep false o
  | .error e => .error e

/-- `decodeString` for the `,string` form with the two-pass definition in place of the one-pass routine -/
def decodeStringTwice (std uerr : Bool) (body : Bytes) : Option Bytes :=
  let b := if std then correctWith fffd body else body
  if !scanBodyOk b then none
  else if std && hasCtl b then none
  else match unquoteTwice (!uerr) b with
    | .ok o => some o
    | .error _ => none

end SonicSpec.Str
