/-
  Core B (strings), executable model.  Core Lean only.
  `quoteByte` is the `_SingleQuoteTab` of native/parsing.h (what encoder.Quote emits):
  control characters as \u00XX except \t \n \r, `"` and `\` with a backslash.
-/
import SonicSpec.Model.Hex
namespace SonicSpec.Str

def hexLow (n : UInt8) : UInt8 := if n < 10 then 48 + n else 87 + n

/-- image of one input byte inside a JSON string literal (single quoting) -/
def quoteByte (c : UInt8) : Bytes :=
  if c == 34 then [92, 34]
  else if c == 92 then [92, 92]
  else if c == 9 then [92, 116]
  else if c == 10 then [92, 110]
  else if c == 13 then [92, 114]
  else if c < 32 then [92, 117, 48, 48, hexLow (c / 16), hexLow (c % 16)]
  else [c]

def quoteBody (s : Bytes) : Bytes := s.flatMap quoteByte

/-- `encoder.Quote` -/
def quote (s : Bytes) : Bytes := 34 :: (quoteBody s ++ [34])

end SonicSpec.Str
