/-
  Enc core, number literals (core Lean only): a small exact shortest-round-trip formatter for
  binary64/binary32 (search over the digit count with exact Nat arithmetic; the `num` work
  package owns the definitive `Num.fmtF64`, this one lives in the Enc namespace until it lands)
  and the notation rule of encoding/json's floatEncoder (encode.go: 'e' format iff
  abs < 1e-6 or abs >= 1e21, exponent cleaned up from e-09 to e-9).
-/
import SonicSpec.Model.EncStr
namespace SonicSpec.Enc

/-- a finite non-zero binary float as `m * 2^e`; `close` = the gap below is half the gap above -/
structure Bin where
  m : Nat
  e : Int
  close : Bool

inductive FClass where
  | zero (neg : Bool)
  | nanInf
  | fin (neg : Bool) (b : Bin)

def classify64 (bits : UInt64) : FClass :=
  let n := bits.toNat
  let neg := n / 2 ^ 63 == 1
  let ef : Nat := n / 2 ^ 52 % 2048
  let fr : Nat := n % 2 ^ 52
  if ef == 2047 then .nanInf
  else if ef == 0 then (if fr == 0 then .zero neg else .fin neg ⟨fr, -1074, false⟩)
  else .fin neg ⟨fr + 2 ^ 52, (ef : Int) - 1075, fr == 0 && ef > 1⟩

def classify32 (bits : UInt32) : FClass :=
  let n := bits.toNat
  let neg := n / 2 ^ 31 == 1
  let ef : Nat := n / 2 ^ 23 % 256
  let fr : Nat := n % 2 ^ 23
  if ef == 255 then .nanInf
  else if ef == 0 then (if fr == 0 then .zero neg else .fin neg ⟨fr, -149, false⟩)
  else .fin neg ⟨fr + 2 ^ 23, (ef : Int) - 150, fr == 0 && ef > 1⟩

/-- a non-negative rational -/
structure Q where
  n : Nat
  d : Nat

def Q.ofScaled (k : Nat) (e2 : Int) : Q :=
  if e2 ≥ 0 then ⟨k * 2 ^ e2.toNat, 1⟩ else ⟨k, 2 ^ (-e2).toNat⟩

/-- `c * 10^p` as a rational -/
def Q.dec (c : Nat) (p : Int) : Q :=
  if p ≥ 0 then ⟨c * 10 ^ p.toNat, 1⟩ else ⟨c, 10 ^ (-p).toNat⟩

def Q.le (a b : Q) : Bool := a.n * b.d ≤ b.n * a.d
def Q.lt (a b : Q) : Bool := a.n * b.d < b.n * a.d

def numDigits (n : Nat) : Nat := (natDec n).length

/-- smallest `j ≥ 1` with `x * 10^j ≥ 1` (for `0 < x < 1`), by bounded search -/
def negExpSearch (x : Q) : Nat → Nat → Nat
  | 0, j => j
  | f+1, j => if x.d ≤ x.n * 10 ^ j then j else negExpSearch x f (j + 1)

/-- floor(log10 x) for x > 0 -/
def floorLog10 (x : Q) : Int :=
  if x.d ≤ x.n then (numDigits (x.n / x.d) : Int) - 1
  else -((negExpSearch x 400 1 : Nat) : Int)

/-- floor (x / 10^p) -/
def floorScaled (x : Q) (p : Int) : Nat :=
  if p ≥ 0 then x.n / (x.d * 10 ^ p.toNat) else (x.n * 10 ^ (-p).toNat) / x.d

/-- digits (decimal integer `d`) and power `p` of the shortest decimal `d * 10^p` that rounds
    to the float, nearest to it among the shortest, ties to the even digit; `kmax` = 17 / 9 -/
def shortestSearch (b : Bin) (kmax : Nat) : Nat × Int :=
  let e2 := b.e - 2
  let x := Q.ofScaled (4 * b.m) e2
  let lo := Q.ofScaled (4 * b.m - (if b.close then 1 else 2)) e2
  let hi := Q.ofScaled (4 * b.m + 2) e2
  let incl := b.m % 2 == 0
  let e10 := floorLog10 x
  let inside (d : Nat) (p : Int) : Bool :=
    let c := Q.dec d p
    if incl then lo.le c && c.le hi else lo.lt c && c.lt hi
  let rec go : Nat → Nat → Nat × Int
    | 0, _ => (0, 0)
    | f+1, k =>
      let p := e10 - ((k : Int) - 1)
      let d0 := floorScaled x p
      let d1 := d0 + 1
      let i0 := inside d0 p
      let i1 := inside d1 p
      if i0 && i1 then
        -- 2x against (2 d0 + 1) 10^p
        let mid := Q.dec (2 * d0 + 1) p
        let x2 : Q := ⟨2 * x.n, x.d⟩
        if x2.lt mid then (d0, p) else if mid.lt x2 then (d1, p)
        else if d0 % 2 == 0 then (d0, p) else (d1, p)
      else if i0 then (d0, p)
      else if i1 then (d1, p)
      else if k ≥ kmax then (d0, p)   -- not reached: kmax digits always identify the float
      else go f (k + 1)
  go kmax 1

def stripZeros : Nat → Nat → Int → Nat × Int
  | 0, d, p => (d, p)
  | f+1, d, p => if d != 0 && d % 10 == 0 then stripZeros f (d / 10) (p + 1) else (d, p)

/-- significant digits (ASCII, no trailing zeros) and scientific exponent -/
def shortestDigits (b : Bin) (kmax : Nat) : Bytes × Int :=
  let (d, p) := shortestSearch b kmax
  let (d', p') := stripZeros 20 d p
  let ds := natDec d'
  (ds, p' + ((ds.length : Int) - 1))

def zeros (n : Nat) : Bytes := List.replicate n 48

/-- `%e` with the exponent clean-up of encode.go, or `%f`, both with the shortest digits -/
def layout (ds : Bytes) (x : Int) : Bytes :=
  if x < -6 || x ≥ 21 then
    let mant := match ds with
      | [] => [48]
      | [d] => [d]
      | d :: r => d :: 46 :: r
    mant ++ [101] ++ (if x < 0 then [45] else [43]) ++ natDec x.natAbs
  else if x ≥ 0 then
    let ip := x.toNat + 1
    if ds.length ≤ ip then (if ds == [48] then [48] else ds ++ zeros (ip - ds.length))   -- zero digits mean 0
    else ds.take ip ++ 46 :: ds.drop ip
  else 48 :: 46 :: (zeros ((-x).toNat - 1) ++ ds)

def fmtClass (c : FClass) (kmax : Nat) : Option Bytes :=
  match c with
  | .nanInf => none
  | .zero neg => some (if neg then [45, 48] else [48])
  | .fin neg b =>
    let (ds, x) := shortestDigits b kmax
    some ((if neg then [45] else []) ++ layout ds x)

/-- encoding/json's rendering of a float64 (`none` = NaN or ±Inf) -/
def fmtF64 (bits : UInt64) : Option Bytes := fmtClass (classify64 bits) 17
/-- encoding/json's rendering of a float32 -/
def fmtF32 (bits : UInt32) : Option Bytes := fmtClass (classify32 bits) 9

end SonicSpec.Enc
