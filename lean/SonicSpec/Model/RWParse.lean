/-
  C16 - what the node's parser constructs, as a function of its flags (assumption A1 made a
  regenerated fact).  A small abstract interpreter over the regenerated event lists of
  `Parser.Parse`, `Parser.decodeArray`, `Parser.decodeObject` (ast/parser.go): it tracks the three
  parser flags (`noLazy`, `loadOnce`, `skipValue` - the only conditions of those functions that
  decide which kind of child node is built), explores every other branch both ways, follows the
  mutual recursion Parse → decodeArray/decodeObject → Parse, and collects the construction events
  (`newRawNode(_, _, lock)`, `newLazyArray/Object`) that can be reached.
  Core Lean only.
-/
import SonicSpec.Model.RW
namespace SonicSpec.RW

structure PFlags where
  noLazy : Bool
  loadOnce : Bool
  skipValue : Bool
  deriving DecidableEq, Repr

def PFlags.set (f : PFlags) (flag : String) (v : Bool) : PFlags :=
  if flag == "noLazy" then { f with noLazy := v }
  else if flag == "loadOnce" then { f with loadOnce := v }
  else if flag == "skipValue" then { f with skipValue := v }
  else f

def PFlags.cond (f : PFlags) : Cond → Option Bool
  | .pNoLazy => some f.noLazy
  | .pLoadOnce => some f.loadOnce
  | .pSkipValue => some f.skipValue
  | _ => none

/-- result of exploring a statement list from one flag state: constructions seen, flag states at
    fall-through, flag states at `return` -/
structure PReach where
  cons : List Ev
  fall : List PFlags
  ret : List PFlags

def addNew (xs : List PFlags) (ys : List PFlags) : List PFlags :=
  ys.foldl (fun acc y => if acc.contains y then acc else acc ++ [y]) xs

/-- every flag assignment that occurs in the parser functions (used to over-approximate the exit
    states of a recursive call that is cut) -/
def allPsets (raw : RawTable) : List (String × Bool) :=
  (raw.filter fun e => e.1.startsWith "Parser.").flatMap fun e =>
    e.2.filterMap fun ev => match ev with | .pset fl v => some (fl, v) | _ => none

def closure (ps : List (String × Bool)) (f : PFlags) : List PFlags :=
  let step := fun (xs : List PFlags) => addNew xs (xs.flatMap fun x => ps.map fun p => x.set p.1 p.2)
  step (step (step [f]))

mutual
def reachSeq (tbl : Table) (ps : List (String × Bool)) :
    Nat → List (String × PFlags) → PFlags → List Stmt → Option PReach
  | 0, _, _, _ => none
  | _ + 1, _, f, [] => some ⟨[], [f], []⟩
  | n + 1, vis, f, s :: rest =>
    match reachStmt tbl ps n vis f s with
    | none => none
    | some r1 =>
      match reachMany tbl ps n vis r1.fall rest with
      | none => none
      | some r2 => some ⟨r1.cons ++ r2.cons, r2.fall, addNew r1.ret r2.ret⟩

/-- the rest of a statement list from each of several flag states -/
def reachMany (tbl : Table) (ps : List (String × Bool)) :
    Nat → List (String × PFlags) → List PFlags → List Stmt → Option PReach
  | 0, _, _, _ => none
  | _ + 1, _, [], _ => some ⟨[], [], []⟩
  | n + 1, vis, f :: fs, stmts =>
    match reachSeq tbl ps n vis f stmts, reachMany tbl ps n vis fs stmts with
    | some a, some b => some ⟨a.cons ++ b.cons, addNew a.fall b.fall, addNew a.ret b.ret⟩
    | _, _ => none

def reachStmt (tbl : Table) (ps : List (String × Bool)) :
    Nat → List (String × PFlags) → PFlags → Stmt → Option PReach
  | 0, _, _, _ => none
  | n + 1, vis, f, s =>
    match s with
    | .ev e =>
      match e with
      | .pset fl v => some ⟨[], [f.set fl v], []⟩
      | .newRaw a => some ⟨[.newRaw a], [f], []⟩
      | .newLazy => some ⟨[.newLazy], [f], []⟩
      | .ret | .panic => some ⟨[], [], [f]⟩
      | .call fn _ =>
        match lookupFn tbl ("Parser." ++ fn) with
        | none => some ⟨[], [f], []⟩          -- not one of the three parser functions: no construction, no flag change
        | some body =>
          if vis.contains (fn, f) then some ⟨[], closure ps f, []⟩
          else
            match reachSeq tbl ps n ((fn, f) :: vis) f body with
            | none => none
            | some r => some ⟨r.cons, addNew r.fall r.ret, []⟩
      | _ => some ⟨[], [f], []⟩
    | .ite c neg a b =>
      match f.cond c with
      | some v => reachSeq tbl ps n vis f (if v != neg then a else b)
      | none =>
        match reachSeq tbl ps n vis f a, reachSeq tbl ps n vis f b with
        | some x, some y => some ⟨x.cons ++ y.cons, addNew x.fall y.fall, addNew x.ret y.ret⟩
        | _, _ => none
    | .loop body =>
      -- zero, one, two or three iterations (the flag states stabilise: only finitely many exist)
      match reachSeq tbl ps n vis f body with
      | none => none
      | some r1 =>
        match reachMany tbl ps n vis r1.fall body with
        | none => none
        | some r2 =>
          match reachMany tbl ps n vis r2.fall body with
          | none => none
          | some r3 =>
            some ⟨r1.cons ++ r2.cons ++ r3.cons, addNew (addNew (addNew [f] r1.fall) r2.fall) r3.fall,
                  addNew (addNew r1.ret r2.ret) r3.ret⟩
    | .switch cs d =>
      let start : Option PReach := match d with
        | some b => reachSeq tbl ps n vis f b
        | none => some ⟨[], [f], []⟩
      cs.foldl (fun acc c =>
        match acc, reachSeq tbl ps n vis f c with
        | some x, some y => some ⟨x.cons ++ y.cons, addNew x.fall y.fall, addNew x.ret y.ret⟩
        | _, _ => none) start
end

/-- the construction events `Parser.<fn>` can reach when started with flags `f` -/
def parserConstructs (raw : RawTable) (fn : String) (f : PFlags) : Option (List Ev) :=
  match parseTable raw with
  | none => none
  | some tbl =>
    match lookupFn tbl ("Parser." ++ fn) with
    | none => none
    | some body => (reachSeq tbl (allPsets raw) 4000 [(fn, f)] f body).map (·.cons.eraseDups)

/-- the same without following calls: what `Parser.<fn>` itself constructs at its own level -/
def parserConstructsHere (raw : RawTable) (fn : String) (f : PFlags) : Option (List Ev) :=
  match parseTable raw with
  | none => none
  | some tbl =>
    match lookupFn tbl ("Parser." ++ fn) with
    | none => none
    | some body => (reachSeq [] (allPsets raw) 4000 [] f body).map (·.cons.eraseDups)

end SonicSpec.RW
