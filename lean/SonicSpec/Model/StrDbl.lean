/-
  Core B (strings) - specification of double unquoting (`,string` fields).  Core Lean only.

  `unquote _ true` (Model/Str.lean) is the transliteration of the one-pass native routine
  (native/unquote.c with F_DOUBLE_UNQUOTE).  What "double unquoting" means is said here without it:
  the body denotes a text, and that text, read as the body of a literal again, denotes the result
  (this is what encoding/json does for a `,string` field: it unquotes the value, checks that the result is a
  string literal and unquotes that).
-/
import SonicSpec.Model.Str
import SonicSpec.Model.StrSpec
namespace SonicSpec.Str

/-- `DenotesD unirep body s`: `body` (what stands between `\"` and `\"` in the value of a `,string` field)
    denotes `s` after two rounds: as a literal body it denotes a text `m`, and `m` as a literal body denotes `s`. -/
inductive DenotesD (unirep : Bool) : Bytes → Bytes → Prop
  | mk {body m s : Bytes} : Denotes unirep body m → Denotes unirep m s → DenotesD unirep body s

/-- the strict form encoding/json implements: the intermediate text must itself obey the literal grammar
    (no bare quote, no control character) -/
inductive DenotesDStrict (unirep : Bool) : Bytes → Bytes → Prop
  | mk {body m s : Bytes} : Denotes unirep body m → LitBody m → Denotes unirep m s → DenotesDStrict unirep body s

/-- minimal JSON escaping of a text that is placed inside a literal: backslash and quote get a backslash,
    everything else is copied (what an encoder does with the inner literal of a `,string` field) -/
def escapeAgain : Bytes → Bytes
  | [] => []
  | c :: t => if c == 92 || c == 34 then 92 :: c :: escapeAgain t else c :: escapeAgain t

/-- a literal body in which no unpaired surrogate escape is directly followed by another backslash escape
    (`LitBody` with that side condition on `\uXXXX`).  On the escaped form of such bodies the one-pass routine
    and the two-pass definition agree (Props/C20: `unquoteD_agrees_on_escaped`); the side condition cannot be
    dropped (`unquoteD_differs_*`). -/
inductive LitBodyD : Bytes → Prop
  | nil : LitBodyD []
  | plain {c : UInt8} {t : Bytes} : 32 ≤ c → c ≠ 34 → c ≠ 92 → LitBodyD t → LitBodyD (c :: t)
  | simple {e v : UInt8} {t : Bytes} : simpleEsc e = some v → LitBodyD t → LitBodyD (92 :: e :: t)
  | uni {a b c d : UInt8} {r : Nat} {t : Bytes} : hex4 a b c d = some r → LitBodyD t →
      (isSurr r → ¬ (isHi r ∧ StartsLo t) → ∀ t', t ≠ 92 :: t') →
      LitBodyD (92 :: 117 :: a :: b :: c :: d :: t)

/-- the successful part of a result (error kinds are not part of the comparison) -/
def okPart : Except UErr Bytes → Option Bytes
  | .ok o => some o
  | .error _ => none

end SonicSpec.Str
