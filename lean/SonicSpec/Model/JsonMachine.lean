/-
  C02: the stack machine of native `fsm_exec_1` (scanning.h:1714) as a transition system, without fuel.

  `Model/JsonValidate.lean` transliterates one turn of the C loop as the function `step` (frame kinds
  FSM_VAL, FSM_ARR, FSM_OBJ, FSM_KEY, FSM_ELEM, FSM_ARR_0, FSM_OBJ_0; `fsm_push` failing at `sp >= B`,
  B = MAX_RECURSE) and iterates it with a fuel bound (`run`, what the driver executes).  Here the same
  turn is the one-step relation `Trans` between configurations (frame stack, unread input); acceptance
  and the error answers are reachability statements.  `Props/C02Fsm.lean` proves that this machine, the
  fuel-bounded function, the grammar and the shared recursive-descent parser all agree.
-/
import SonicSpec.Model.JsonValidate
namespace SonicSpec.Json

/-- a configuration of the machine: `vt[0..sp)` (top first, `sp` = its length) and the unread bytes -/
structure Cfg where
  st : List Frame
  rest : Bytes

/-- one turn of `while (self->sp)` that does not return -/
inductive Trans (B : Nat) (m : StrMode) : Cfg → Cfg → Prop
  | turn {f : Frame} {st st2 : List Frame} {sp2 : Nat} {s r2 : Bytes} :
      step B m f st st.length s = .next st2 sp2 r2 → Trans B m ⟨f :: st, s⟩ ⟨st2, r2⟩

/-- a turn that returns an error code -/
inductive Stuck (B : Nat) (m : StrMode) : Cfg → Err → Bytes → Prop
  | turn {f : Frame} {st : List Frame} {s : Bytes} {e : Err} {p : Bytes} :
      step B m f st st.length s = .fail e p → Stuck B m ⟨f :: st, s⟩ e p

/-- any number of turns -/
inductive Reach (B : Nat) (m : StrMode) : Cfg → Cfg → Prop
  | refl (c : Cfg) : Reach B m c c
  | head {a b c : Cfg} : Trans B m a b → Reach B m b c → Reach B m a c

/-- `fsm_init(FSM_VAL); fsm_exec` leaves the loop with an empty stack and `r` unread: a value was skipped -/
def FsmOk (B : Nat) (m : StrMode) (s r : Bytes) : Prop := Reach B m ⟨[.val], s⟩ ⟨[], r⟩

/-- ... or returns the error `e` -/
def FsmErr (B : Nat) (m : StrMode) (s : Bytes) (e : Err) : Prop :=
  ∃ c p, Reach B m ⟨[.val], s⟩ c ∧ Stuck B m c e p

/-- the machine behind sonic.Valid: non-empty input, a value is skipped with the default string scanner,
    only space is left (alg.Valid, /repo/internal/encoder/alg/spec.go:37) -/
def FsmAccepts (B : Nat) (s : Bytes) : Prop := s ≠ [] ∧ ∃ r, FsmOk B .dflt s r ∧ (∀ c ∈ r, isSpace c = true)

end SonicSpec.Json
