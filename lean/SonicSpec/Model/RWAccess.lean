/-
  C16 (core `RW`) - vocabulary of the access-discipline facts that `go/factx_access` regenerates
  from ast/node.go, ast/encode.go, ast/parser.go on every run (`Generated/Access.lean`).
  Core Lean only.

  One function = one ORDERED list of events, syntactic and order-preserving; the branch structure
  is flattened with markers (`ifB c neg … [els …] ifE`, `loopB … loopE`, `swB (cas|dflt …)* swE`).
-/
namespace SonicSpec.RW

/-- fields of `ast.Node` (ast/node.go:57): `t types.ValueType`, `l uint`, `p unsafe.Pointer`, `m *sync.RWMutex`;
    `c` = the memory reachable through `p` once the node is parsed: the children container
    (linkedNodes / linkedPairs: chunks, size, hash index) and the freshly created child nodes in it -/
inductive Fld | t | l | p | m | c
  deriving DecidableEq, Repr

inductive MOp | Lock | Unlock | RLock | RUnlock
  deriving DecidableEq, Repr

/-- first boolean argument of a call: literal `true`/`false`, a bool parameter of the caller, or none -/
inductive Arg | none | tru | fls | dyn
  deriving DecidableEq, Repr

/-- conditions the extractor recognises; everything else is `opaque` -/
inductive Cond
  | raw        -- `self.isRaw()` / `t&_V_RAW != 0` for `t := self.loadt()`
  | tErr       -- `t == V_ERROR` for `t := self.loadt()`
  | tAny       -- `self.isAny()`  (`self.loadt() == _V_ANY`; an any-node is not raw)
  | mNonNil    -- `m != nil` for `m := self.m`
  | lockVar    -- the variable bound by `lock := self.lock()` / `self.rlock()`
  | parseErr   -- `e != 0` for `_, e = parser.Parse()`
  | selfNil    -- `self == nil`
  | lazy       -- `self.isLazy()` (or a variable bound to it)
  | param      -- the bool parameter of the function
  | pNoLazy | pLoadOnce | pSkipValue   -- parser flags (Parser methods only)
  | opaque
  deriving DecidableEq, Repr

inductive Ev
  | aload (f : Fld)                 -- atomic.Load*(&self.f)
  | astore (f : Fld)                -- atomic.Store*(&self.f, _)
  | rd (f : Fld)                    -- plain read of self.f
  | wr (f : Fld)                    -- plain write of self.f
  | rdAll                           -- `*self` read
  | wrAll                           -- `*self = …`
  | mcall (k : MOp)                 -- Lock/Unlock/RLock/RUnlock on (a copy of) self.m
  | call (fn : String) (a : Arg)    -- self.fn(…)
  | callSet (fn : String) (a : Arg) -- lock := self.fn(…)
  | callCopy (fn : String)          -- method call on a by-value receiver copy
  | deferCall (fn : String)         -- defer self.fn()
  | ifB (c : Cond) (neg : Bool) | els | ifE
  | ret | panic
  | loopB | loopE
  | swB | cas | dflt | swE
  | brk | cont | fallthru
  | newRaw (a : Arg)                -- newRawNode(_, _, lock)
  | newLazy                         -- newLazyArray / newLazyObject
  | pset (flag : String) (v : Bool) -- parser.<flag> = <literal>
  | mkMutex                         -- x.m = new(sync.RWMutex)
  | escape (fn : String)            -- the receiver pointer handed to a non-method function
  | valueRecv                       -- first event of a by-value receiver method (receiver is a copy)
  | parse                           -- parser.Parse()/decodeArray/decodeObject on a local parser: builds the children
  | gotoFwd | label                 -- forward goto (flattened as fall-through) and its target
  deriving DecidableEq, Repr

end SonicSpec.RW
