/-
  Core E (part 5): the two back ends of the encoder IR side by side, as far as the source shows it without a
  semantics of x86.  `Generated/X86.lean` (go/factx_x86, regenerated on every run) lists, per opcode,
    * the `_asm_OP_*` method `_OpFuncTab` dispatches to, the subroutines that method emits calls to (transitively through
      the *Assembler methods and shared labels it uses) and the option bits it tests - the JIT;
    * the functions the `case` of vm.go `Execute` calls and the option bits it mentions - the interpreter.
  The hand-written part is `helperPair`: which native / runtime subroutine of the JIT does the job of which Go function of
  the interpreter (the leaf theorems of Props/C12, C19, C20 are about exactly these pairs), and which calls are memory
  plumbing of one back end only (buffer growth, write barriers, pointer arithmetic helpers).
-/
import SonicSpec.Generated.X86
namespace SonicSpec.Ir

/-- the interpreter's function that does the job of a subroutine the JIT calls; `none`: plumbing of the JIT only
    (buffer growth behind `check_size`, the panic stub, write barrier of OP_save, memmove of literal text) -/
def helperPair : String → Option String
  | "native.S_i64toa" => some "alg.I64toa"
  | "native.S_u64toa" => some "alg.U64toa"
  | "native.S_f32toa" => some "alg.F32toa"
  | "native.S_f64toa" => some "alg.F64toa"
  | "native.S_quote" => some "alg.Quote"
  | "rt.SubrB64Encode" => some "rt.EncodeBase64"
  | "rt.GrowSlice" | "rt.Memmove" | "vars.GoPanic" | "rt.GcWriteBarrier2" | "rt.GcWriteBarrierAX" => none
  | f => some f

/-- calls of the interpreter that are plumbing only (unsafe pointer arithmetic, reading a map header) -/
def vmPlumbing : List String := ["rt.Add", "rt.NoEscape", "rt.Maplen", "rt.MapType"]

def sameSet (a b : List String) : Bool := a.all b.contains && b.all a.contains

def jitOf (op : String) : Option (String × List String × List String) := Gen.x86Dispatch.lookup op
def vmOf (op : String) : Option (List String × List String) := Gen.vmDispatch.lookup op

/-- both back ends handle `op`, test the same option bits, and call corresponding helpers -/
def backendsAgreeOn (op : String) : Bool :=
  match jitOf op, vmOf op with
  | some (m, hs, bs), some (vs, vb) =>
    m == "_asm_" ++ op && sameSet bs vb && sameSet (hs.filterMap helperPair) (vs.filter fun f => !vmPlumbing.contains f)
  | _, _ => false

end SonicSpec.Ir
