/-
  C15 - the chunked child storage of ast/buffer.go (`linkedNodes`, `linkedPairs`): a fixed `head`
  chunk of `_DEFAULT_NODE_CAP` slots, a slice `tail` of further chunks of the same size, and the
  number `size` of slots in use.  `NodeM` (Model/AstNode.lean) works on the flat list of the slots
  in use; Proofs/AstChunk.lean shows that `At`, `Set`/`Push` and `Pop` below are the list operations
  on that flat list, for every chunk capacity `c > 0` (the code has c = 16, ast/parser.go:31).
  Core Lean only.
-/
namespace SonicSpec.Ast

structure Linked (α : Type) where
  head : List α
  tail : List (List α)
  size : Nat
deriving Repr

namespace Linked
variable {α : Type}

/-- `At(i)` (ast/buffer.go:48, 222) -/
def slot (c : Nat) (s : Linked α) (i : Nat) : Option α :=
  if i < s.size ∧ i < c then s.head[i]?
  else if c ≤ i ∧ i < s.size then
    let a := i / c - 1
    let b := i % c
    if a < s.tail.length then (s.tail[a]?).bind (fun ch => ch[b]?) else none
  else none

/-- `growTailLength(l)` (ast/buffer.go:123, 289) followed by the allocation of the chunks that are
    still nil: new chunks are filled with the zero value -/
def grow (c : Nat) (zero : α) (tail : List (List α)) (l : Nat) : List (List α) :=
  tail ++ List.replicate (l - tail.length) (List.replicate c zero)

/-- `Set(i, v)` (ast/buffer.go:99, 265) -/
def set (c : Nat) (zero : α) (s : Linked α) (i : Nat) (v : α) : Linked α :=
  if i < c then
    { s with head := s.head.set i v, size := if s.size ≤ i then i + 1 else s.size }
  else
    let a := i / c - 1
    let b := i % c
    let t := grow c zero s.tail (a + 1)
    { s with tail := t.modify a (fun ch => ch.set b v), size := if s.size ≤ i then i + 1 else s.size }

/-- `Push(v)` (ast/buffer.go:95, 237) -/
def push (c : Nat) (zero : α) (s : Linked α) (v : α) : Linked α := set c zero s s.size v

/-- `Pop()` (ast/buffer.go:87, 241): the last slot is zeroed, then given up -/
def pop (c : Nat) (zero : α) (s : Linked α) : Linked α :=
  if s.size = 0 then s
  else
    let s' := set c zero s (s.size - 1) zero
    { s' with size := s.size - 1 }

/-- the slots in use, in order -/
def toList (s : Linked α) : List α := (s.head ++ s.tail.flatten).take s.size

/-- shape invariant: every chunk has `c` slots and `size` fits in what is allocated -/
def WF (c : Nat) (s : Linked α) : Prop :=
  s.head.length = c ∧ (∀ ch ∈ s.tail, ch.length = c) ∧ s.size ≤ c * (s.tail.length + 1)

/-- `new(linkedNodes)` -/
def empty (c : Nat) (zero : α) : Linked α := { head := List.replicate c zero, tail := [], size := 0 }

/-! ## the remaining mutators reached from the public API

`*self.At(i) = v` (through the pointer `At` hands out) is `assign`; the soft deletion of
`removeNode` / `removePair` / `removePairAt` (ast/node.go:1679-1707) is `assign i zero`; `Swap`
(ast/buffer.go:404) and `MoveOne` (ast/buffer.go:63) are loops of such assignments; the tail loop of
`Node.Pop` (ast/node.go:919-941) is a loop of `Pop()`. -/

/-- `*self.At(i) = v` for a slot in use -/
def assign (c : Nat) (s : Linked α) (i : Nat) (v : α) : Linked α :=
  if i < s.size then
    if i < c then { s with head := s.head.set i v }
    else { s with tail := s.tail.modify (i / c - 1) (fun ch => ch.set (i % c) v) }
  else s

/-- `*self.At(dst) = *self.At(src)` -/
def copySlot (c : Nat) (s : Linked α) (dst src : Nat) : Linked α :=
  match slot c s src with
  | some v => assign c s dst v
  | none => s

/-- `for i := from; k times; i++ { *At(i) = *At(i+1) }` -/
def shiftUp (c : Nat) : Nat → Nat → Linked α → Linked α
  | 0, _, s => s
  | k + 1, i, s => shiftUp c k (i + 1) (copySlot c s i (i + 1))

/-- `for i := from; k times; i-- { *At(i) = *At(i-1) }` -/
def shiftDown (c : Nat) : Nat → Nat → Linked α → Linked α
  | 0, _, s => s
  | k + 1, i, s => shiftDown c k (i - 1) (copySlot c s i (i - 1))

/-- `MoveOne(source, target)` (ast/buffer.go:63) -/
def moveOne (c : Nat) (s : Linked α) (source target : Nat) : Linked α :=
  if source = target then s
  else if source ≥ s.size ∨ target ≥ s.size then s
  else
    match slot c s source with
    | none => s
    | some n =>
      let s' := if source < target then shiftUp c (target - source) source s
                else shiftDown c (source - target) source s
      assign c s' target n

/-- `Swap(i, j)` (ast/buffer.go:404), without the index bookkeeping -/
def swap (c : Nat) (s : Linked α) (i j : Nat) : Linked α :=
  match slot c s i, slot c s j with
  | some a, some b => assign c (assign c s i b) j a
  | _, _ => s

/-- the tail loop of `Node.Pop` (ast/node.go:919-926, 934-941): `Pop()` until a live slot went -/
def popLoop (c : Nat) (zero : α) (live : α → Bool) : Nat → Linked α → Linked α × Bool
  | 0, s => (s, false)
  | k + 1, s =>
    match slot c s (s.size - 1) with
    | none => (s, false)
    | some x => if live x then (pop c zero s, true) else popLoop c zero live k (pop c zero s)

/-- a chunk filled from the front, zero elsewhere -/
def pad (c : Nat) (zero : α) (l : List α) : List α := l ++ List.replicate (c - l.length) zero

/-- the tail chunks `FromSlice` allocates and fills (`fuel` ≥ the number of elements left) -/
def chunksOf (c : Nat) (zero : α) : Nat → List α → List (List α)
  | 0, _ => []
  | f + 1, l => if l.isEmpty then [] else pad c zero (l.take c) :: chunksOf c zero f (l.drop c)

/-- `FromSlice(con)` (ast/buffer.go:161, 372): `NewArray` / `NewObject` -/
def fromSlice (c : Nat) (zero : α) (con : List α) : Linked α :=
  { head := pad c zero (con.take c), tail := chunksOf c zero con.length (con.drop c), size := con.length }

/-- one mutator of the container, as the public API reaches them -/
inductive COp (α : Type) where
  | assign (i : Nat) (v : α)       -- SetByIndex / Set on an existing key: `*p = node`
  | unset (i : Nat)                -- soft delete
  | push (v : α)                   -- Add / Set of a new key / lazy loading
  | pop                            -- `Pop()`
  | moveOne (src dst : Nat)        -- Move
  | swap (i j : Nat)               -- Sort

def applyOp (c : Nat) (zero : α) (s : Linked α) : COp α → Linked α
  | .assign i v => assign c s i v
  | .unset i => assign c s i zero
  | .push v => push c zero s v
  | .pop => pop c zero s
  | .moveOne a b => moveOne c s a b
  | .swap i j => swap c s i j

def runOps (c : Nat) (zero : α) : Linked α → List (COp α) → Linked α
  | s, [] => s
  | s, o :: os => runOps c zero (applyOp c zero s o) os

end Linked

/-! ## the same mutators on a plain list -/

namespace LOps
variable {α : Type}

def assign (l : List α) (i : Nat) (v : α) : List α := l.set i v

def copySlot (l : List α) (dst src : Nat) : List α :=
  match l[src]? with
  | some v => l.set dst v
  | none => l

def shiftUp : Nat → Nat → List α → List α
  | 0, _, l => l
  | k + 1, i, l => shiftUp k (i + 1) (copySlot l i (i + 1))

def shiftDown : Nat → Nat → List α → List α
  | 0, _, l => l
  | k + 1, i, l => shiftDown k (i - 1) (copySlot l i (i - 1))

def moveOne (l : List α) (source target : Nat) : List α :=
  if source = target then l
  else if source ≥ l.length ∨ target ≥ l.length then l
  else
    match l[source]? with
    | none => l
    | some n =>
      (if source < target then shiftUp (target - source) source l
       else shiftDown (source - target) source l).set target n

def swap (l : List α) (i j : Nat) : List α :=
  match l[i]?, l[j]? with
  | some a, some b => (l.set i b).set j a
  | _, _ => l

def applyOp (zero : α) (l : List α) : Linked.COp α → List α
  | .assign i v => l.set i v
  | .unset i => l.set i zero
  | .push v => l ++ [v]
  | .pop => l.dropLast
  | .moveOne a b => moveOne l a b
  | .swap i j => swap l i j

def runOps (zero : α) : List α → List (Linked.COp α) → List α
  | l, [] => l
  | l, o :: os => runOps zero (applyOp zero l o) os

end LOps
end SonicSpec.Ast
