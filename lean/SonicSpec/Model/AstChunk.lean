/-
  C15 - the chunked child storage of ast/buffer.go (`linkedNodes`, `linkedPairs`): a fixed `head`
  chunk of `_DEFAULT_NODE_CAP` slots, a slice `tail` of further chunks of the same size, and the
  number `size` of slots in use.  `NodeM` (Model/AstNode.lean) works on the flat list of the slots
  in use; Proofs/AstChunk.lean shows that `At`, `Set`/`Push` and `Pop` below are the list operations
  on that flat list, for every chunk capacity `c > 0` (the code has c = 16, ast/parser.go:31).
  Core Lean only.
-/
namespace SonicSpec.Ast

structure Linked (α : Type) where
  head : List α
  tail : List (List α)
  size : Nat
deriving Repr

namespace Linked
variable {α : Type}

/-- `At(i)` (ast/buffer.go:48, 222) -/
def slot (c : Nat) (s : Linked α) (i : Nat) : Option α :=
  if i < s.size ∧ i < c then s.head[i]?
  else if c ≤ i ∧ i < s.size then
    let a := i / c - 1
    let b := i % c
    if a < s.tail.length then (s.tail[a]?).bind (fun ch => ch[b]?) else none
  else none

/-- `growTailLength(l)` (ast/buffer.go:123, 289) followed by the allocation of the chunks that are
    still nil: new chunks are filled with the zero value -/
def grow (c : Nat) (zero : α) (tail : List (List α)) (l : Nat) : List (List α) :=
  tail ++ List.replicate (l - tail.length) (List.replicate c zero)

/-- `Set(i, v)` (ast/buffer.go:99, 265) -/
def set (c : Nat) (zero : α) (s : Linked α) (i : Nat) (v : α) : Linked α :=
  if i < c then
    { s with head := s.head.set i v, size := if s.size ≤ i then i + 1 else s.size }
  else
    let a := i / c - 1
    let b := i % c
    let t := grow c zero s.tail (a + 1)
    { s with tail := t.modify a (fun ch => ch.set b v), size := if s.size ≤ i then i + 1 else s.size }

/-- `Push(v)` (ast/buffer.go:95, 237) -/
def push (c : Nat) (zero : α) (s : Linked α) (v : α) : Linked α := set c zero s s.size v

/-- `Pop()` (ast/buffer.go:87, 241): the last slot is zeroed, then given up -/
def pop (c : Nat) (zero : α) (s : Linked α) : Linked α :=
  if s.size = 0 then s
  else
    let s' := set c zero s (s.size - 1) zero
    { s' with size := s.size - 1 }

/-- the slots in use, in order -/
def toList (s : Linked α) : List α := (s.head ++ s.tail.flatten).take s.size

/-- shape invariant: every chunk has `c` slots and `size` fits in what is allocated -/
def WF (c : Nat) (s : Linked α) : Prop :=
  s.head.length = c ∧ (∀ ch ∈ s.tail, ch.length = c) ∧ s.size ≤ c * (s.tail.length + 1)

/-- `new(linkedNodes)` -/
def empty (c : Nat) (zero : α) : Linked α := { head := List.replicate c zero, tail := [], size := 0 }

end Linked
end SonicSpec.Ast
