/-
  C16 - the multi-node concurrent object: a parent node and its lazily loaded children (and their
  children, to any depth).  Every node is an instance of the one-node system of Model/RW.lean with
  its own fields, its own RWMutex and its own access history; thread `i` has a program on every
  node (what it does there once it has got there).  A thread may take steps on a non-root node
  only after it has DESCENDED to it: it has read the child slot in the memory behind the parent's
  `p` (an access of class `c`) after the parent's release-store of `t` - the only way a
  Get / Index / GetByPath chain obtains a child pointer.  Before that the child does not exist for
  it (the parent's converter is still building it under the parent's write lock).
  Core Lean only.
-/
import SonicSpec.Model.RW
namespace SonicSpec.RW

/-- node 0 is the root; `topo n` is the parent of node `n > 0` -/
structure MState where
  nodes : List State
  deriving Repr, DecidableEq

def isStoreT (a : Acc) : Bool := a.f == .t && a.wr && a.atomic
def isChildRead (i : Nat) (a : Acc) : Bool := a.tid == i && a.f == .c && !a.wr

/-- thread `i` has read a child slot of `par` after `par`'s conversion was published: in the
    history (newest first) such a read occurs before the release-store of `t` is met -/
def descended (par : State) (i : Nat) : Bool :=
  par.sh.hist.any isStoreT && (par.sh.hist.takeWhile (fun a => !isStoreT a)).any (isChildRead i)

/-- may thread `i` act on node `n`? -/
def mayEnter (topo : Nat → Nat) (ms : MState) (i n : Nat) : Bool :=
  n == 0 || (match ms.nodes[topo n]? with | some par => descended par i | none => false)

/-- one step of the composite: thread `i` performs its next micro-step on node `n` (if it is there) -/
def mstep (pf : Bool) (topo : Nat → Nat) (ms : MState) (x : Nat × Nat) : MState :=
  match ms.nodes[x.2]? with
  | none => ms
  | some s => if mayEnter topo ms x.1 x.2 then { nodes := ms.nodes.set x.2 (step pf s x.1) } else ms

/-- an execution of the composite = an arbitrary schedule of (thread, node) pairs -/
def mrun (pf : Bool) (topo : Nat → Nat) (ms : MState) : List (Nat × Nat) → MState
  | [] => ms
  | x :: sched => mrun pf topo (mstep pf topo ms x) sched

/-- initially every node is a raw node with its own mutex; `pss[n][i]` = program and oracle of
    thread `i` on node `n` -/
def MState.init (pss : List (List (Prog × List Bool))) : MState := { nodes := pss.map State.init }

end SonicSpec.RW
