/-
  Core H (C17): chunked reader, value framing, the stream decoder as shipped (`Faithful`), the
  repaired stream decoder (`Fixed`), the chunk-independent specification `decodeAll`.
  Core Lean only.  Generic in the value type `V` and the inner one-value decoder
  `dec : Bytes → Option (V × Nat)` (value and number of bytes consumed from the head of a frame);
  `Model/IOJson.lean` instantiates it with the strict parser of `Model/JsonTree.lean`.

  Source: /repo/internal/decoder/api/stream.go (line numbers cited), native/scanning.h
  (skip_one_fast_1 and helpers; the assembled code is tied by correspondence only).
-/
import SonicSpec.Model.Hex
namespace SonicSpec.IO

/-- error part of one `Read` result -/
inductive RErr where
  | eof
  | fail (code : Nat)
deriving DecidableEq, Repr, Inhabited

/-- how a stream ends -/
inductive Terminal where
  | eof
  | syntaxError
  | readerErr (code : Nat)
deriving DecidableEq, Repr, Inhabited

def RErr.toTerminal : RErr → Terminal
  | .eof => .eof
  | .fail c => .readerErr c

/-- a reader: the `Read` results still to come (data, possibly empty, possibly together with an
    error) and what every `Read` returns once the script is used up.  An error is latched: after a
    result carrying `some e` every later `Read` returns `([], some e)`. -/
abbrev Script := List (Bytes × Option RErr)

/-- all bytes a reader delivers (up to and including the first result that carries an error) -/
def concat : Script → Bytes
  | [] => []
  | (d, none) :: r => d ++ concat r
  | (d, some _) :: _ => d

/-- the error that ends the stream -/
def termOf : Script → RErr → RErr
  | [], f => f
  | (_, none) :: r, f => termOf r f
  | (_, some e) :: _, _ => e

/-! ## lexical helpers -/

def isSpace (c : UInt8) : Bool := c == 32 || c == 9 || c == 10 || c == 13
def isDigit (c : UInt8) : Bool := c ≥ 48 && c ≤ 57
/-- `}` `]` `,` : what `skip_number_fast` looks for (scanning.h get_structural_maskx16/32) -/
def isStruct (c : UInt8) : Bool := c == 125 || c == 93 || c == 44
def isNumStart (c : UInt8) : Bool := c == 45 || isDigit c
/-- characters that can occur inside a number literal -/
def isNumChar (c : UInt8) : Bool := isDigit c || c == 45 || c == 43 || c == 46 || c == 101 || c == 69

/-- number of leading space bytes -/
def wsLen : Bytes → Nat
  | c :: r => if isSpace c then wsLen r + 1 else 0
  | [] => 0

/-- `d` without its leading white space -/
def dropWs (d : Bytes) : Bytes := d.drop (wsLen d)

/-- length of the leading run of number characters -/
def numRun : Bytes → Nat
  | c :: r => if isNumChar c then numRun r + 1 else 0
  | [] => 0

/-- skip_string_fast (scanning.h:1502): `s` is what follows the opening quote; result is the number
    of bytes up to and including the closing quote; `none` = ran out of input -/
def skipString : Bytes → Option Nat
  | [] => none
  | c :: r =>
    if c == 34 then some 1
    else if c == 92 then
      match r with
      | [] => none
      | _ :: r' => (skipString r').map (· + 2)
    else (skipString r).map (· + 1)

/-- skip_container_fast (scanning.h:1437): `s` follows the opening bracket `lc`; brackets of the
    same kind are counted outside string literals; a quote preceded by an odd run of backslashes
    does not delimit a string (a backslash hides a following quote or backslash, nothing else - a
    bracket after a backslash outside a string still counts); result is the number of bytes up to
    and including the closer that balances; `none` = ran out of input.
    `depth` = open brackets of this kind minus one, `inq` = inside a string. -/
def skipContainer (lc rc : UInt8) : Bytes → Nat → Bool → Option Nat
  | [], _, _ => none
  | c :: r, d, q =>
    if c == 92 then
      match r with
      | [] => none
      | e :: r' =>
        if e == 34 || e == 92 then (skipContainer lc rc r' d q).map (· + 2)
        else (skipContainer lc rc (e :: r') d q).map (· + 1)
    else if c == 34 then (skipContainer lc rc r d (!q)).map (· + 1)
    else if q then (skipContainer lc rc r d q).map (· + 1)
    else if c == rc then
      match d with
      | 0 => some 1
      | d' + 1 => (skipContainer lc rc r d' q).map (· + 1)
    else if c == lc then (skipContainer lc rc r (d + 1) q).map (· + 1)
    else (skipContainer lc rc r d q).map (· + 1)

/-- index of the first byte satisfying `p` -/
def findIdx (p : UInt8 → Bool) : Bytes → Option Nat
  | [] => none
  | c :: r => if p c then some 0 else (findIdx p r).map (· + 1)

/-- number of trailing space bytes of `s` -/
def trailingWs (s : Bytes) : Nat := wsLen s.reverse

/-- skip_number_fast (scanning.h:1401): `s` follows the first character of the number.  The
    vector rounds (16 bytes at a time while at least 16 remain; the 32-byte AVX2 rounds find the
    same position) stop only at `}` `]` `,` and then step back over spaces; only the scalar tail
    (fewer than 16 bytes left) stops at a space.  Result: number of bytes of `s` in the frame. -/
def skipNumberFast (s : Bytes) : Nat :=
  let k := s.length / 16 * 16
  match findIdx isStruct (s.take k) with
  | some i => i - trailingWs (s.take i)
  | none =>
    match findIdx (fun c => isStruct c || isSpace c) (s.drop k) with
    | some j => k + j
    | none => s.length

inductive SkipRes where
  | ok (start : Nat) (stop : Nat)   -- value occupies [start, stop) of the source
  | eof                             -- -ERR_EOF
  | inval                           -- -ERR_INVAL
deriving DecidableEq, Repr

/-- skip_one_fast_1 (scanning.h:1544) on the whole source -/
def skipOneFast (src : Bytes) : SkipRes :=
  let y := wsLen src
  match src.drop y with
  | [] => .eof
  | c :: r =>
    if c == 91 then
      match skipContainer 91 93 r 0 false with
      | some n => .ok y (y + 1 + n)
      | none => .eof
    else if c == 123 then
      match skipContainer 123 125 r 0 false with
      | some n => .ok y (y + 1 + n)
      | none => .eof
    else if c == 34 then
      match skipString r with
      | some n => .ok y (y + 1 + n)
      | none => .eof
    else if isNumStart c then
      -- backward_space_chars cannot step back past the first character
      .ok y (y + 1 + skipNumberFast r)
    else if c == 116 || c == 110 then
      if 3 ≤ r.length then .ok y (y + 4) else .eof
    else if c == 102 then
      if 4 ≤ r.length then .ok y (y + 5) else .eof
    else if c == 0 then .eof
    else .inval

/-! ## the decoder state (stream.go:37) -/

structure DState where
  buf : Bytes := []
  scanp : Nat := 0
  scanned : Nat := 0
  err : Option Terminal := none
deriving Repr, DecidableEq

/-- InputOffset (stream.go:122) -/
def DState.offset (st : DState) : Nat := st.scanned + st.scanp

/-- setErr (stream.go:172): the error sticks and the buffer is released -/
def setErr (st : DState) (t : Terminal) : DState := { st with err := some t, buf := [] }

/-- first non-space byte of `l`, with its index counted from `i` -/
def firstNS : Bytes → Nat → Option (UInt8 × Nat)
  | [], _ => none
  | c :: r, i => if isSpace c then firstNS r (i + 1) else some (c, i)

/-- scan (stream.go:194): first non-space byte at or after `scanp`; on success `scanp` moves to it,
    otherwise `scanp` stays -/
def scan (st : DState) : Option (UInt8 × DState) :=
  match firstNS (st.buf.drop st.scanp) st.scanp with
  | some (c, i) => some (c, { st with scanp := i })
  | none => none

/-- first half of refill (stream.go:210): slide consumed bytes away -/
def slide (st : DState) : DState :=
  if st.scanp > 0 then
    { st with scanned := st.scanned + st.scanp, buf := st.buf.drop st.scanp, scanp := 0 }
  else st

def append (st : DState) (d : Bytes) : DState := { st with buf := st.buf ++ d }

/-- peek (stream.go:179): skip spaces, refilling while the buffer holds nothing else; the error of
    a `Read` is looked at only after the data that came with it.  `none` = the reader's error was
    recorded with `setErr`. -/
def peek (st : DState) : Script → RErr → (Option UInt8 × DState × Script × RErr)
  | sc, f =>
    match scan st with
    | some (c, st') => (some c, st', sc, f)
    | none =>
      match sc with
      | [] => (none, setErr (slide st) f.toTerminal, [], f)
      | (d, none) :: rest => peek (append (slide st) d) rest f
      | (d, some e) :: _ =>
        let st1 := append (slide st) d
        match scan st1 with
        | some (c, st') => (some c, st', [], e)
        | none => (none, setErr st1 e.toTerminal, [], e)

/-- result of one `Decode` call -/
inductive DecodeRes (V : Type) where
  | value (v : V)
  | nothing            -- `nil` error although nothing was decoded
  | error (t : Terminal)
deriving Repr, DecidableEq

/-- what `Decode` does after a value was decoded and `scanp` was moved behind it
    (stream.go:100-114): drop the buffer if only spaces remain, else move the rest to the front -/
def finish (st : DState) : DState :=
  match scan st with
  | none => { st with buf := [], scanned := st.scanned + st.scanp, scanp := 0 }
  | some (_, st') => { st' with buf := st'.buf.drop st'.scanp, scanned := st'.scanned + st'.scanp, scanp := 0 }

section generic
variable {V : Type} (dec : Bytes → Option (V × Nat))

/-! ## the decoder as shipped -/
namespace Faithful

/-- outcome of the `try_skip` loop (stream.go:71-89) -/
inductive Framed where
  | ok (st : DState) (y x : Nat) (sc : Script) (f : RErr)
  | failed (st : DState) (sc : Script) (f : RErr)

/-- `try_skip:` with `readMore` (stream.go:143) inlined.  `reskip = false` is the inside of
    `readMore`'s loop after a `Read` that brought only spaces (no new skip attempt). -/
def frameLoop (st : DState) (s : Nat) (reskip : Bool) : Script → RErr → Framed
  | sc, f =>
    match (if reskip then skipOneFast (st.buf.drop s) else SkipRes.eof) with
    | .ok y x => .ok st y x sc f
    | _ =>
      -- any failure of the skip, -ERR_INVAL included, asks for more input (stream.go:78)
      match sc with
      | [] =>
        -- Read returns (0, f): scanp = len(buf), nothing scanned, error recorded
        .failed (setErr { st with scanp := st.buf.length } f.toTerminal) [] f
      | (d, none) :: rest =>
        let st1 := { append st d with scanp := st.buf.length }
        match scan st1 with
        | some (_, st2) => frameLoop st2 s true rest f
        | none => frameLoop st1 s false rest f
      | (d, some e) :: _ =>
        let st1 := { append st d with scanp := st.buf.length }
        match scan st1 with
        | some (_, st2) =>
          match skipOneFast (st2.buf.drop s) with
          | .ok y x => .ok st2 y x [] e
          | _ => .failed (setErr { st2 with scanp := st2.buf.length } e.toTerminal) [] e
        | none => .failed (setErr st1 e.toTerminal) [] e

/-- Decode (stream.go:68) -/
def decode (st : DState) (sc : Script) (f : RErr) : DecodeRes V × DState × Script × RErr :=
  match st.err with
  | some t => (.error t, st, sc, f)                 -- More(): err != nil
  | none =>
    match peek st sc f with
    | (none, st1, sc1, f1) =>
      -- peek recorded the reader's error; More() is false; `return self.err`
      (match st1.err with | some t => .error t | none => .nothing, st1, sc1, f1)
    | (some c, st1, sc1, f1) =>
      if c == 93 || c == 125 then
        (.nothing, st1, sc1, f1)                    -- More() false, self.err == nil
      else
        let s := st1.scanp
        match frameLoop st1 s true sc1 f1 with
        | .failed st2 sc2 f2 =>
          (match st2.err with | some t => .error t | none => .error .syntaxError, st2, sc2, f2)
        | .ok st2 y x sc2 f2 =>
          let s' := y + s
          let e := x + s'
          match dec ((st2.buf.drop s').take (e - s')) with
          | none => (.error .syntaxError, setErr st2 .syntaxError, sc2, f2)
          | some (v, _) => (.value v, finish { st2 with scanp := e }, sc2, f2)

end Faithful

/-! ## the repaired decoder -/
namespace Fixed

inductive Kind where
  | delimited   -- `[` `{` `"` `t` `n` `f` : the native skip frames it or reports end of input
  | number
  | invalid
deriving DecidableEq, Repr

def kindOf (c : UInt8) : Kind :=
  if c == 91 || c == 123 || c == 34 || c == 116 || c == 110 || c == 102 then .delimited
  else if isNumStart c then .number
  else .invalid

/-- extent of the value that starts at the head of `p` (no leading space);
    `none` = more input is needed to know (for a number: it touches the end of `p`) -/
def frame (p : Bytes) : Option Nat :=
  match p with
  | [] => none
  | c :: r =>
    if c == 91 then (skipContainer 91 93 r 0 false).map (· + 1)
    else if c == 123 then (skipContainer 123 125 r 0 false).map (· + 1)
    else if c == 34 then (skipString r).map (· + 1)
    else if c == 116 || c == 110 then (if 3 ≤ r.length then some 4 else none)
    else if c == 102 then (if 4 ≤ r.length then some 5 else none)
    else if isNumStart c then (if numRun p < p.length then some (numRun p) else none)
    else none

inductive Framed where
  | ok (st : DState) (x : Nat) (sc : Script) (f : RErr)
  | failed (st : DState) (sc : Script) (f : RErr)

/-- what to do when the value is still incomplete and the reader has ended with `e` -/
def atEnd (st : DState) (s : Nat) (isNum : Bool) (e : RErr) : Framed :=
  match e with
  | .fail c => .failed (setErr st (.readerErr c)) [] e
  | .eof =>
    if isNum then .ok st (st.buf.length - s) [] e     -- a number ends where the stream ends
    else .failed (setErr st .syntaxError) [] e         -- truncated value: io.ErrUnexpectedEOF

/-- the repaired `try_skip` loop: one `Read` at a time, re-frame after each -/
def frameLoop (st : DState) (s : Nat) (isNum : Bool) : Script → RErr → Framed
  | sc, f =>
    match frame (st.buf.drop s) with
    | some x => .ok st x sc f
    | none =>
      match sc with
      | [] => atEnd st s isNum f
      | (d, none) :: rest => frameLoop (append st d) s isNum rest f
      | (d, some e) :: _ =>
        let st1 := append st d
        match frame (st1.buf.drop s) with
        | some x => .ok st1 x [] e
        | none => atEnd st1 s isNum e

def decode (st : DState) (sc : Script) (f : RErr) : DecodeRes V × DState × Script × RErr :=
  match st.err with
  | some t => (.error t, st, sc, f)
  | none =>
    match peek st sc f with
    | (none, st1, sc1, f1) =>
      (match st1.err with | some t => .error t | none => .error .syntaxError, st1, sc1, f1)
    | (some c, st1, sc1, f1) =>
      if kindOf c = .invalid then (.error .syntaxError, setErr st1 .syntaxError, sc1, f1)
      else
        let s := st1.scanp
        match frameLoop st1 s (kindOf c == .number) sc1 f1 with
        | .failed st2 sc2 f2 =>
          (match st2.err with | some t => .error t | none => .error .syntaxError, st2, sc2, f2)
        | .ok st2 x sc2 f2 =>
          match dec ((st2.buf.drop s).take x) with
          | none => (.error .syntaxError, setErr st2 .syntaxError, sc2, f2)
          | some (v, n) =>
            -- a successful inner decode consumes at least one byte and stays inside the frame
            if n = 0 ∨ x < n then (.error .syntaxError, setErr st2 .syntaxError, sc2, f2)
            else (.value v, finish { st2 with scanp := s + n }, sc2, f2)

end Fixed

/-! ## running a decoder to the end of the stream -/

inductive Stop where
  | term (t : Terminal)
  | noProgress        -- `Decode` returned nil without a value
  | more              -- call budget used up
deriving DecidableEq, Repr

def run (step : DState → Script → RErr → DecodeRes V × DState × Script × RErr) :
    Nat → DState → Script → RErr → List V × Stop
  | 0, _, _, _ => ([], .more)
  | n + 1, st, sc, f =>
    match step st sc f with
    | (.value v, st', sc', f') =>
      let (vs, t) := run step n st' sc' f'
      (v :: vs, t)
    | (.nothing, _, _, _) => ([], .noProgress)
    | (.error t, _, _, _) => ([], .term t)

/-- everything repeated `Decode` calls return on a fresh decoder; the call budget
    `(concat sc).length + 1` is never used up by a decoder that consumes input on every success -/
def Faithful.outputs (sc : Script) (f : RErr) : List V × Stop :=
  run (Faithful.decode dec) ((concat sc).length + 1) {} sc f

def Fixed.outputs (sc : Script) (f : RErr) : List V × Stop :=
  run (Fixed.decode dec) ((concat sc).length + 1) {} sc f

/-! ## specification: value-by-value decoding of the concatenated bytes -/

inductive SpecStep (V : Type) where
  | done (t : Terminal)
  | val (v : V) (rest : Bytes)

/-- extent of the value at the head of `rest` (= everything the reader will still deliver, no
    leading space) when the stream ends with `term`: delimited lexically (`Fixed.frame`); a value
    that runs into the end of the stream is complete only if it is a number and the stream ended
    with EOF.  `lenient` = additionally accept a number that touches the end of a stream which
    ended with a reader error (the property does not decide that case). -/
def specFrame (lenient isNum : Bool) (term : RErr) (rest : Bytes) : Option Nat :=
  match Fixed.frame rest with
  | some x => some x
  | none =>
    match term with
    | .eof => if isNum then some rest.length else none
    | .fail _ => if lenient && isNum then some rest.length else none

/-- how a stream ends whose last value is cut short -/
def truncTerm : RErr → Terminal
  | .eof => .syntaxError
  | .fail c => .readerErr c

/-- one step of value-by-value decoding; `rest` has no leading space -/
def specStepCore (lenient : Bool) (term : RErr) (rest : Bytes) : SpecStep V :=
  match rest with
  | [] => .done term.toTerminal
  | c :: _ =>
    if Fixed.kindOf c = .invalid then .done .syntaxError
    else
      match specFrame lenient (Fixed.kindOf c == .number) term rest with
      | none => .done (truncTerm term)
      | some x =>
        match dec (rest.take x) with
        | none => .done .syntaxError
        | some (v, m) =>
          if m = 0 ∨ x < m then .done .syntaxError else .val v (rest.drop m)

/-- one step of value-by-value decoding of `data` (everything the reader will ever deliver) when
    the stream ends with `term` -/
def specStep (lenient : Bool) (term : RErr) (data : Bytes) : SpecStep V :=
  specStepCore dec lenient term (dropWs data)

/-- `[`, `{`, `"` : values whose end is marked in the text itself -/
def isDelimStart (c : UInt8) : Bool := c == 91 || c == 123 || c == 34

/-- streams made of self-delimiting values only (at most `n` of them): white space, then either
    the end of the data or a string/array/object that is complete in the data and that the inner
    decoder accepts and consumes entirely, and so on -/
def SelfDelimited : Nat → Bytes → Prop
  | 0, data => dropWs data = []
  | n + 1, data => dropWs data = [] ∨
      ∃ c r x v, dropWs data = c :: r ∧ isDelimStart c = true ∧ Fixed.frame (c :: r) = some x ∧
        dec ((c :: r).take x) = some (v, x) ∧ SelfDelimited n ((c :: r).drop x)

/-- `decodeAll` with a step budget (one unit per value); `.more` = budget used up -/
def decodeAllFuel (lenient : Bool) (term : RErr) : Nat → Bytes → List V × Stop
  | 0, _ => ([], .more)
  | n + 1, data =>
    match specStep dec lenient term data with
    | .done t => ([], .term t)
    | .val v rest =>
      let (vs, t) := decodeAllFuel lenient term n rest
      (v :: vs, t)

/-- the specification as a `Stop` (a budget of `data.length + 1` is never used up:
    `Proofs/IO.lean decodeAllStop_ne_more`) -/
def decodeAllStop (data : Bytes) (term : RErr) : List V × Stop :=
  decodeAllFuel dec false term (data.length + 1) data

/-- value-by-value decoding of everything the reader delivers -/
def decodeAll (data : Bytes) (term : RErr) : List V × Terminal :=
  match decodeAllStop dec data term with
  | (vs, .term t) => (vs, t)
  | (vs, _) => (vs, .syntaxError)

/-- what is left of the stream where `decodeAllFuel` stops -/
def specRemainder (lenient : Bool) (term : RErr) : Nat → Bytes → Bytes
  | 0, data => data
  | n + 1, data =>
    match specStep dec lenient term data with
    | .done _ => data
    | .val _ rest => specRemainder lenient term n rest

end generic

/-! ## stream encoder (/repo/internal/encoder/stream.go) -/

/-- one `Write` result, by call index; after the script every `Write` accepts everything -/
inductive WStep where
  | ok
  | short (k : Nat)   -- accepts `k` bytes (at most what was offered), nil error
  | fail (k : Nat)    -- accepts `k` bytes and returns the writer's error
deriving DecidableEq, Repr

inductive WErr where
  | writer            -- the error value the Writer returned
  | shortWrite        -- io.ErrShortWrite made up by io.Copy
deriving DecidableEq, Repr

structure EncRes where
  delivered : Bytes
  err : Option WErr
  rest : List WStep
deriving DecidableEq, Repr

/-- `for len(buf) > 0 { n, err = w.Write(buf); buf = buf[n:]; if err != nil {…} }` (stream.go:74) -/
def writeAll : Bytes → List WStep → EncRes
  | b, [] => ⟨b, none, []⟩
  | b, .ok :: ws => if b.isEmpty then ⟨[], none, .ok :: ws⟩ else ⟨b, none, ws⟩
  | b, .short k :: ws =>
    if b.isEmpty then ⟨[], none, .short k :: ws⟩
    else
      let r := writeAll (b.drop k) ws
      ⟨b.take k ++ r.delivered, r.err, r.rest⟩
  | b, .fail k :: ws =>
    if b.isEmpty then ⟨[], none, .fail k :: ws⟩ else ⟨b.take k, some .writer, ws⟩

/-- a single `Write` of all of `b` whose result is inspected by bytes.Buffer.WriteTo (io.Copy) -/
def writeOnce (b : Bytes) : List WStep → EncRes
  | [] => ⟨b, none, []⟩
  | .ok :: ws => ⟨b, none, ws⟩
  | .short k :: ws => ⟨b.take k, if k < b.length then some .shortWrite else none, ws⟩
  | .fail k :: ws => ⟨b.take k, some .writer, ws⟩

/-- a single `Write` whose result is thrown away (stream.go:84 `enc.w.Write([]byte{'\n'})`) -/
def writeIgnored (b : Bytes) : List WStep → EncRes
  | [] => ⟨b, none, []⟩
  | .ok :: ws => ⟨b, none, ws⟩
  | .short k :: ws => ⟨b.take k, none, ws⟩
  | .fail k :: ws => ⟨b.take k, none, ws⟩

def nl (noNewline : Bool) : Bytes := if noNewline then [] else [10]

/-- StreamEncoder.Encode as shipped; `m` = Marshal's bytes (already indented on the indent path) -/
def Faithful.encode (indent noNewline : Bool) (m : Bytes) (ws : List WStep) : EncRes :=
  if indent then writeOnce (m ++ nl noNewline) ws
  else
    let r := writeAll m ws
    match r.err with
    | some _ => r
    | none =>
      if noNewline then r
      else
        let r2 := writeIgnored [10] r.rest
        ⟨r.delivered ++ r2.delivered, none, r2.rest⟩

/-- repaired: the newline goes through the same write loop as the value -/
def Fixed.encode (indent noNewline : Bool) (m : Bytes) (ws : List WStep) : EncRes :=
  if indent then writeOnce (m ++ nl noNewline) ws
  else writeAll (m ++ nl noNewline) ws

end SonicSpec.IO
