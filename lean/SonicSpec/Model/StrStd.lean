/-
  Core B (strings) - the sources the C20 models are measured against, transliterated literally.  Core Lean only.

    native/utf8.h:89-124   valid_utf8_4byte with its bit masks           -> `seq2Bits`, `seq3Bits`, `seq4Bits`, `seqLenBits`
    GOROOT/src/encoding/json/indent.go:19-37  appendHTMLEscape (Go 1.23) -> `stdHtmlEscape`
-/
import SonicSpec.Model.Hex
import SonicSpec.Model.StrUtf8
import SonicSpec.Model.StrHtml
namespace SonicSpec.Str

/-! ### utf8.h: the 32-bit little-endian word `b0 | b1<<8 | b2<<16 | b3<<24` against the masks, byte by byte

  b2_mask 0000C0E0 / b2_patt 000080C0 / b2_requ 0000001E
  b3_mask 00C0C0F0 / b3_patt 008080E0 / b3_requ 0000200F / b3_erro 0000200D
  b4_mask C0C0C0F8 / b4_patt 808080F0 / b4_requ 00003007 / b4_err0 00000004 / b4_err1 00003003 -/

/-- utf8.h:102 is_valid_seq_2: `(u & b2_mask) == b2_patt && (u & b2_requ)` -/
def seq2Bits (b0 b1 : UInt8) : Bool :=
  (b0 &&& 224 == 192) && (b1 &&& 192 == 128) && (b0 &&& 30 != 0)

/-- utf8.h:107 is_valid_seq_3: `(u & b3_mask) == b3_patt && (tmp = u & b3_requ) && tmp != b3_erro`;
    `tmp` has the bits `b0 & 0F` and `b1 & 20` -/
def seq3Bits (b0 b1 b2 : UInt8) : Bool :=
  (b0 &&& 240 == 224) && (b1 &&& 192 == 128) && (b2 &&& 192 == 128) &&
  ((b0 &&& 15 != 0) || (b1 &&& 32 != 0)) && !((b0 &&& 15 == 13) && (b1 &&& 32 == 32))

/-- utf8.h:113 is_valid_seq_4: `(u & b4_mask) == b4_patt && (tmp = u & b4_requ) &&
    ((tmp & b4_err0) == 0 || (tmp & b4_err1) == 0)`; `tmp` has the bits `b0 & 07` and `b1 & 30` -/
def seq4Bits (b0 b1 b2 b3 : UInt8) : Bool :=
  (b0 &&& 248 == 240) && (b1 &&& 192 == 128) && (b2 &&& 192 == 128) && (b3 &&& 192 == 128) &&
  ((b0 &&& 7 != 0) || (b1 &&& 48 != 0)) && ((b0 &&& 4 == 0) || ((b0 &&& 3 == 0) && (b1 &&& 48 == 0)))

/-- utf8.h:120-123 in the order of the C code (3, 2, 4), after the ASCII test of the callers -/
def bits4 (b0 b1 b2 b3 : UInt8) : Nat :=
  if b0 < 128 then 1
  else if seq3Bits b0 b1 b2 then 3
  else if seq2Bits b0 b1 then 2
  else if seq4Bits b0 b1 b2 b3 then 4
  else 0

/-- the next four bytes, missing ones read as the zero padding of memcpy_p4 (utf8.h:162) -/
def seqLenBits : Bytes → Nat
  | [] => 0
  | b0 :: t => bits4 b0 (t.getD 0 0) (t.getD 1 0) (t.getD 2 0)

/-! ### encoding/json.HTMLEscape -/

/-- `hex[n]` with `const hex = "0123456789abcdef"` (encode.go:251), n < 16 -/
def stdHex (n : UInt8) : UInt8 := if n < 10 then 48 + n else 87 + n

/-- `src[a:b]` -/
def slice (src : Bytes) (a b : Nat) : Bytes := (src.drop a).take (b - a)

/-- indent.go:24-28, the first `if` of the loop body; state = (start, dst) -/
def stdIf1 (src : Bytes) (c : UInt8) (i : Nat) (st : Nat × Bytes) : Nat × Bytes :=
  if c == 60 || c == 62 || c == 38 then
    (i + 1, st.2 ++ slice src st.1 i ++ [92, 117, 48, 48, stdHex (c >>> 4), stdHex (c &&& 15)])
  else st

/-- indent.go:30-34, the second `if`; `rest` = `src[i+1:]` (so `i+2 < len(src)` iff it has two elements) -/
def stdIf2 (src : Bytes) (c : UInt8) (rest : Bytes) (i : Nat) (st : Nat × Bytes) : Nat × Bytes :=
  match rest with
  | x :: y :: _ =>
    if c == 226 && x == 128 && (y &&& 254) == 168 then
      (i + 3, st.2 ++ slice src st.1 i ++ [92, 117, 50, 48, 50, stdHex (y &&& 15)])
    else st
  | _ => st

/-- indent.go:23-36: `for i, c := range src { ... }; return append(dst, src[start:]...)`;
    the first argument is `src[i:]` -/
def stdLoop (src : Bytes) : Bytes → Nat → Nat × Bytes → Bytes
  | [], _, st => st.2 ++ src.drop st.1
  | c :: rest, i, st => stdLoop src rest (i + 1) (stdIf2 src c rest i (stdIf1 src c i st))

/-- `appendHTMLEscape(dst, src)` -/
def stdHtmlEscape (dst src : Bytes) : Bytes := stdLoop src src 0 (0, dst)

end SonicSpec.Str
