/-
  Core J (loader tables), executable model.  Core Lean only.

  What sonic hands to the Go runtime for every function it generates:
    * pc-value tables (`loader.Pcdata.MarshalBinary`, /repo/loader/pcdata.go:67-92) which the
      runtime reads back with `pcvalue`/`step`/`readvarint` ($GOROOT/src/runtime/symtab.go,
      go1.23: 958-1060, 1247-1284);
    * pointer bitmaps (`rt.StackMapBuilder`, /repo/loader/internal/rt/stackmap.go:29-60,180-222);
    * the per-function table set of `buildLoadFunc` (/repo/loader/loader_latest.go:38-82).
  Frame-layout records (filled by the regenerated `Generated/Frames.lean`) are at the end.

  Conventions: a Go `uint32` is a `Nat` kept below 2^32, a Go `int32` an `Int` kept inside
  [-2^31, 2^31) with `wrap32` applied where Go's arithmetic wraps.  Program counters are
  relative to the function entry (as in `loader.Pcvalue`), so the runtime's `f.entry()` is 0.
-/
import SonicSpec.Model.Hex
namespace SonicSpec.Loader

/-! ## varints (encoding/binary) -/

/-- `binary.PutUvarint` (encoding/binary/varint.go): 7 bits per byte, low group first,
    bit 7 set on every byte but the last:
    `for x >= 0x80 { buf[i] = byte(x) | 0x80; x >>= 7; i++ }; buf[i] = byte(x)`.
    The fuel is the number of times the loop may still run. -/
def putUvarintN : Nat → Nat → Bytes
  | 0, x => [UInt8.ofNat x]
  | fuel + 1, x =>
    if x < 128 then [UInt8.ofNat x]
    else UInt8.ofNat (x % 128 + 128) :: putUvarintN fuel (x / 128)

/-- a `uint64` has at most ten 7-bit groups (`binary.MaxVarintLen64 = 10`), so the loop runs at
    most nine times -/
def putUvarint (x : Nat) : Bytes := putUvarintN 9 x

/-- the zig-zag map of `binary.PutVarint`: `ux := uint64(x) << 1; if x < 0 { ux = ^ux }` -/
def zigzag (x : Int) : Nat :=
  if x < 0 then (-(2 * x) - 1).toNat else (2 * x).toNat

/-- `binary.PutVarint` -/
def putVarint (x : Int) : Bytes := putUvarint (zigzag x)

/-- two's-complement wrap of an `int32` result -/
def wrap32 (x : Int) : Int := (x + 2147483648) % 4294967296 - 2147483648

def InInt32 (x : Int) : Prop := -2147483648 ≤ x ∧ x < 2147483648

instance (x : Int) : Decidable (InInt32 x) := by unfold InInt32; exact inferInstance

/-! ## `Pcdata.MarshalBinary` -/

/-- `loader.Pcvalue` (pcdata.go:57-60): `PC uint32` relative to the entry, `Val int32` -/
structure Pcvalue where
  pc  : Nat
  val : Int
deriving Repr, DecidableEq

/-- loop body of `MarshalBinary` (pcdata.go:72-88) with the running `sv`, `sp`;
    `none` = `panic("PC must be in ascending order!")` -/
def marshalGo : List Pcvalue → Int → Nat → Option Bytes
  | [], _, _ => some [0]                                   -- "put 0 to indicate ends"
  | v :: rest, sv, sp =>
    if v.pc < sp then none
    else
      let dp := v.pc - sp                                   -- uint64(v.PC - sp)
      let dv := wrap32 (v.val - sv)                         -- int64(v.Val - sv), int32 subtraction
      if dv == 0 || dp == 0 then marshalGo rest sv sp       -- `continue`
      else (marshalGo rest v.val v.pc).map (fun t => putVarint dv ++ (putUvarint dp ++ t))

/-- `Pcdata.MarshalBinary`: "delta value always starts from -1", pc from 0 -/
def marshalPcdata (t : List Pcvalue) : Option Bytes := marshalGo t (-1) 0

/-- the entries `MarshalBinary` really writes (those not hit by the `dv == 0 || dp == 0` skip) -/
def emittedGo : List Pcvalue → Int → Nat → List Pcvalue
  | [], _, _ => []
  | v :: rest, sv, sp =>
    if wrap32 (v.val - sv) == 0 || v.pc - sp == 0 then emittedGo rest sv sp
    else v :: emittedGo rest v.val v.pc

def emitted (t : List Pcvalue) : List Pcvalue := emittedGo t (-1) 0

/-! ## the Go runtime's reader -/

/-- `runtime.readvarint` (symtab.go:1272-1284), all in `uint32`:
    `v |= uint32(b&0x7F) << (shift & 31)`; returns the value and the rest of the slice
    (the Go code returns the count `n` and the caller slices `p[n:]`); `none` = ran off the slice -/
def readvarintGo : Bytes → Nat → Nat → Option (Nat × Bytes)
  | [], _, _ => none
  | b :: rest, v, shift =>
    let v' := (v ||| ((b.toNat % 128) <<< (shift % 32))) % 4294967296
    if b.toNat < 128 then some (v', rest) else readvarintGo rest v' (shift + 7)

def readvarint (p : Bytes) : Option (Nat × Bytes) := readvarintGo p 0 0

/-- `step`'s single-byte fast path: `x := uint32(p[0]); if x&0x80 != 0 { n, x = readvarint(p) }` -/
def readFast : Bytes → Option (Nat × Bytes)
  | [] => none
  | b :: rest => if b.toNat < 128 then some (b.toNat, rest) else readvarint (b :: rest)

/-- `int32(-(uvdelta & 1) ^ (uvdelta >> 1))` for a `uint32` uvdelta, in closed form -/
def unzig32 (u : Nat) : Int := if u % 2 = 1 then -((u / 2 : Nat) : Int) - 1 else ((u / 2 : Nat) : Int)

inductive StepRes where
  | ok (p : Bytes) (pc : Nat) (val : Int)
  | stop                -- `return nil, false`: a zero uvdelta that is not the first entry
  | overrun             -- the Go code would index past the end of the table bytes
deriving Repr, DecidableEq

/-- `runtime.step` (symtab.go:1247-1269), `sys.PCQuantum = 1` on amd64 -/
def step (p : Bytes) (pc : Nat) (val : Int) (first : Bool) : StepRes :=
  match p with
  | [] => .overrun
  | b0 :: _ =>
    if b0 == 0 && !first then .stop
    else
      match readFast p with
      | none => .overrun
      | some (uvdelta, p1) =>
        let val' := wrap32 (val + unzig32 uvdelta)
        match readFast p1 with
        | none => .overrun
        | some (pcdelta, p2) => .ok p2 (pc + pcdelta) val'

inductive PcRes where
  | found (v : Int)
  | notFound            -- table ended: `throw("invalid runtime symbol table")` if strict, else -1
  | overrun
deriving Repr, DecidableEq

/-- the loop of `runtime.pcvalue` (symtab.go:1017-1050) without the cache; `first` is
    `pc == f.entry()`.  Fuel: every `step` consumes at least one byte. -/
def pcvalueLoop : Nat → Bytes → Nat → Int → Nat → PcRes
  | 0, _, _, _, _ => .overrun
  | fuel + 1, p, pc, val, target =>
    match step p pc val (pc == 0) with
    | .ok p' pc' val' => if target < pc' then .found val' else pcvalueLoop fuel p' pc' val' target
    | .stop => .notFound
    | .overrun => .overrun

def pcvalue (p : Bytes) (target : Nat) : PcRes := pcvalueLoop (p.length + 1) p 0 (-1) target

def PcRes.toOption : PcRes → Option Int
  | .found v => some v
  | _ => none

/-- value the runtime finds for `targetpc` in a table, `none` when it finds none -/
def decodePcValue (p : Bytes) (target : Nat) : Option Int := (pcvalue p target).toOption

/-- what a table *means*: entry `i` holds on `[pc (i-1), pc i)`, i.e. the value of the first
    entry whose `pc` exceeds the target (the convention `GetPcspTable`, `buildLoadFunc` and
    `WrapGoC` rely on: `{PC: textSize, Val: v}` = "v on the whole text") -/
def valueAt : List Pcvalue → Nat → Option Int
  | [], _ => none
  | v :: rest, pc => if pc < v.pc then some v.val else valueAt rest pc

/-- precondition of the round trip: strictly increasing pcs (first one > 0), everything inside
    the Go field types, and no entry repeats the value before it (the first-entry rule: the
    value before the first entry is -1) -/
def WF : List Pcvalue → Int → Nat → Prop
  | [], _, _ => True
  | v :: rest, sv, sp => sp < v.pc ∧ v.pc < 4294967296 ∧ InInt32 v.val ∧ v.val ≠ sv ∧ WF rest v.val v.pc

def WellFormed (t : List Pcvalue) : Prop := WF t (-1) 0

instance decWF : (t : List Pcvalue) → (sv : Int) → (sp : Nat) → Decidable (WF t sv sp)
  | [], _, _ => isTrue trivial
  | v :: rest, sv, sp => by
    unfold WF
    have := decWF rest v.val v.pc
    exact inferInstance

instance (t : List Pcvalue) : Decidable (WellFormed t) := decWF t (-1) 0

/-- tables `MarshalBinary` accepts at all: pcs never decrease, fields inside their Go types -/
def Ascending : List Pcvalue → Nat → Prop
  | [], _ => True
  | v :: rest, sp => sp ≤ v.pc ∧ v.pc < 4294967296 ∧ InInt32 v.val ∧ Ascending rest v.pc

instance decAscending : (t : List Pcvalue) → (sp : Nat) → Decidable (Ascending t sp)
  | [], _ => isTrue trivial
  | v :: rest, sp => by
    unfold Ascending
    have := decAscending rest v.pc
    exact inferInstance

/-! ## stack maps -/

/-- `rt.Bitmap` (stackmap.go:26-29) -/
structure Bitmap where
  n : Nat
  b : Bytes
deriving Repr, DecidableEq

/-- `Bitmap.grow` (stackmap.go:31-35) -/
def Bitmap.grow (m : Bitmap) : Bitmap :=
  if m.n ≥ m.b.length * 8 then { m with b := m.b ++ [0] } else m

/-- one byte of `Bitmap.mark` (stackmap.go:37-43): `|= 1 << (i%8)` or `&^= 1 << (i%8)` -/
def markByte (x : UInt8) (k : Nat) (bv : Bool) : UInt8 :=
  if bv then x ||| ((1 : UInt8) <<< UInt8.ofNat k) else x &&& ~~~((1 : UInt8) <<< UInt8.ofNat k)

def Bitmap.mark (m : Bitmap) (i : Nat) (bv : Bool) : Bitmap :=
  { m with b := m.b.set (i / 8) (markByte (m.b.getD (i / 8) 0) (i % 8) bv) }

/-- `Bitmap.Append` (stackmap.go:53-57) -/
def Bitmap.append (m : Bitmap) (bv : Bool) : Bitmap :=
  let m1 := m.grow
  let m2 := m1.mark m1.n bv
  { m2 with n := m2.n + 1 }

/-- `StackMapBuilder.AddField` / the loop of `AppendMany` -/
def addFields (m : Bitmap) (fields : List Bool) : Bitmap := fields.foldl Bitmap.append m

/-- a builder program: `AddField(b)` = `(1, b)`, `AddFields(n, b)` = `(n, b)` -/
def runBuilder (ops : List (Nat × Bool)) : Bitmap :=
  ops.foldl (fun m op => addFields m (List.replicate op.1 op.2)) { n := 0, b := [] }

def buildBitmap (fields : List Bool) : Bitmap := addFields { n := 0, b := [] } fields

/-- `BitVec.Bit` (stackmap.go:79-81) and the runtime's `ptrbit`: `(b[i/8] >> (i%8)) & 1` -/
def getBit (b : Bytes) (i : Nat) : Bool :=
  ((b.getD (i / 8) 0) >>> UInt8.ofNat (i % 8)) &&& 1 == 1

def le32 (x : Nat) : Bytes :=
  [UInt8.ofNat (x % 256), UInt8.ofNat (x / 256 % 256), UInt8.ofNat (x / 65536 % 256), UInt8.ofNat (x / 16777216 % 256)]

/-- `StackMapBuilder.Build` + `StackMap.MarshalBinary` (stackmap.go:150-168,190-207):
    `N int32 = 1`, `L int32 = nbits`, then the bitmap bytes -/
def stackMapBytes (m : Bitmap) : Bytes := le32 1 ++ le32 m.n ++ m.b

/-! ## `buildLoadFunc` -/

structure LoadTables where
  pcsp          : List Pcvalue
  unsafePoint   : Option (List Pcvalue)     -- `none`: `fn.PcUnsafePoint` stays nil (no table, offset 0)
  stackMapIndex : List Pcvalue
  args          : Option Bitmap
  locals        : Option Bitmap

/-- the three values `buildLoadFunc` puts into its one-entry tables, read from the source by
    go/factx_frames (`Generated.Frames.loadFuncFacts`): `{PC: textSize, Val: unsafeVal}` when
    `noPreempt`, `{PC: textSize, Val: v}` for `safeVal = some v` otherwise (`none` = the else branch
    builds no table), `{PC: textSize, Val: smiVal}` for the stack-map index -/
structure LoadFuncFacts where
  unsafeVal : Int
  safeVal   : Option Int
  smiVal    : Int
deriving Repr, DecidableEq

/-- /repo/loader/loader_latest.go:38-82 -/
def buildLoadFunc (k : LoadFuncFacts) (noPreempt : Bool) (pcdata : List Pcvalue) (textSize : Nat)
    (argPtrs localPtrs : Option (List Bool)) : LoadTables :=
  { pcsp := pcdata
    unsafePoint := if noPreempt then some [⟨textSize, k.unsafeVal⟩] else k.safeVal.map (fun v => [⟨textSize, v⟩])
    stackMapIndex := [⟨textSize, k.smiVal⟩]
    args := argPtrs.map buildBitmap
    locals := localPtrs.map buildBitmap }

/-- `runtime.pcdatavalue`: offset 0 ("no table", what `makePctab` records for a nil `*Pcdata`) reads as -1 -/
def readPcdata (table : Option Bytes) (pc : Nat) : Option Int :=
  match table with
  | none => some (-1)
  | some b => decodePcValue b pc

/-! ## frame layouts (values come from `Generated/Frames.lean`) -/

inductive SlotBase where
  | args      -- addressed as `_FP_base + k`: the caller's argument / spill area
  | locals    -- addressed as `_FP_fargs + _FP_saves + k`
deriving Repr, DecidableEq

/-- one `_ARG_x` / `_VAR_x = jit.Ptr(_SP, <const expr>)` (8-byte `MOVQ` slot), or an alias
    `_ARG_s = _ARG_sp` (then `aliasOf = some "_ARG_sp"` and the offset is the target's) -/
structure Slot where
  name    : String
  off     : Nat
  base    : SlotBase
  aliasOf : Option String
deriving Repr, DecidableEq

structure Frame where
  name      : String
  fpArgs    : Nat
  fpFargs   : Nat
  fpSaves   : Nat
  fpLocals  : Nat
  fpOffs    : Nat
  fpSize    : Nat
  fpBase    : Option Nat     -- the generic decoder declares no `_VD_base`
  slots     : List Slot
  argPtrs   : List Bool
  localPtrs : List Bool
deriving Repr

/-- one machine word of a Go signature -/
structure SigWord where
  name : String     -- `s.ptr`, `s.len`, `vp`, …
  ptr  : Bool
deriving Repr, DecidableEq

structure NativeFn where
  isa   : String
  name  : String
  entry : Nat
  size  : Nat
  stack : Nat
  pcsp  : List Pcvalue
deriving Repr

def Slot.lo (s : Slot) : Nat := s.off
def Slot.hi (s : Slot) : Nat := s.off + 8

/-- every slot 8-aligned and inside the area its address expression names -/
def Frame.slotInBounds (f : Frame) (s : Slot) : Bool :=
  s.off % 8 == 0 &&
  match s.base with
  | .locals => f.fpFargs + f.fpSaves ≤ s.off && s.off + 8 ≤ f.fpFargs + f.fpSaves + f.fpLocals
  | .args =>
    match f.fpBase with
    | some b => b ≤ s.off && s.off + 8 ≤ b + f.fpArgs
    | none => false

/-- two different names on overlapping bytes are fine only when the source says so:
    `a = b` declarations, or a pair listed in `overlays` -/
def Frame.pairOk (overlays : List (String × String)) (a b : Slot) : Bool :=
  a.name == b.name || a.hi ≤ b.lo || b.hi ≤ a.lo ||
  a.aliasOf == some b.name || b.aliasOf == some a.name ||
  overlays.contains (a.name, b.name) || overlays.contains (b.name, a.name)

def Frame.slotsOk (f : Frame) (overlays : List (String × String)) : Bool :=
  f.slots.all f.slotInBounds &&
  f.slots.all (fun a => f.slots.all (fun b => Frame.pairOk overlays a b)) &&
  -- an alias has the offset of the slot it names
  f.slots.all (fun a => match a.aliasOf with
    | none => true
    | some t => f.slots.any (fun b => b.name == t && b.off == a.off && b.base == a.base))

/-- `_FP_offs = fargs + saves + locals`, `_FP_size = offs + 8` (saved BP), `_FP_base = size + 8`
    (return address) -/
def Frame.arithOk (f : Frame) : Bool :=
  f.fpOffs == f.fpFargs + f.fpSaves + f.fpLocals && f.fpSize == f.fpOffs + 8 &&
  (match f.fpBase with | some b => b == f.fpSize + 8 | none => true) &&
  f.fpArgs % 8 == 0 && f.fpFargs % 8 == 0 && f.fpSaves % 8 == 0 && f.fpLocals % 8 == 0

def nativeOk (maxFrame : Nat) (f : NativeFn) : Bool :=
  decide (WellFormed f.pcsp) && f.stack ≤ maxFrame &&
  (match f.pcsp.getLast? with | some e => e.pc == f.size | none => f.size == 0) &&
  f.pcsp.all (fun e => e.val ≥ 0 && e.val ≤ (f.stack : Int))

/-! ## `GetPcspTable` (internal/jit/backend.go:118-219): the pc-sp table derived from the instruction stream -/

/-- what one assembled instruction does to SP, as `GetPcspTable` classifies it:
    `push k` = PUSHQ/PUSHFQ (8), PUSHL (4), PUSHW (2), `ADJSP $k`, `SUBQ $k, SP`;
    `pop k`  = POPQ/POPFQ (8), POPL (4), POPW (2), `ADDQ $k, SP`; `ret` = RET; `none` = anything else -/
inductive SpEffect where
  | none
  | push (k : Int)
  | pop (k : Int)
  | ret
deriving Repr, DecidableEq

structure Ins where
  size : Nat          -- `p.Isize`; pseudo-instructions (labels) have size 0
  eff  : SpEffect
deriving Repr, DecidableEq

def codeSize (l : List Ins) : Nat := (l.map (·.size)).sum

/-- the loop of `GetPcspTable` with its running `pc`, `deltasp`, `maxdepth`:
    an entry `{PC: nextPc(p), Val: deltasp}` *before* the adjustment is applied; the first RET ends the
    walk, and whatever follows it gets one entry `{PC: cursym.Size, Val: maxdepth}`;
    `none` = `panic("unbalanced PUSH/POP")` -/
def getPcspGo : List Ins → Nat → Int → Int → Option (List Pcvalue)
  | [], _, _, _ => some []
  | i :: rest, pc, d, m =>
    let npc := pc + i.size
    match i.eff with
    | .none => getPcspGo rest npc d m
    | .push k => (getPcspGo rest npc (d + k) (max m (d + k))).map (fun t => ⟨npc, d⟩ :: t)
    | .pop k => (getPcspGo rest npc (d - k) m).map (fun t => ⟨npc, d⟩ :: t)
    | .ret =>
      if d ≠ 0 then none
      else some (⟨npc, d⟩ :: (if rest.isEmpty then [] else [⟨npc + codeSize rest, m⟩]))

def getPcspTable (l : List Ins) : Option (List Pcvalue) := getPcspGo l 0 0 0

/-- SP displacement (bytes below the value at entry) before the instruction at `pc` executes, when
    control reaches it by falling through from the entry: the sum of what the instructions that end
    at or before `pc` did -/
def linearDelta : List Ins → Nat → Nat → Int → Int
  | [], _, _, d => d
  | i :: rest, pc, target, d =>
    if target < pc + i.size then d
    else
      let d' := match i.eff with
        | .push k => d + k
        | .pop k => d - k
        | _ => d
      linearDelta rest (pc + i.size) target d'

/-- the code shape of sonic's three assemblers: `pre` (nothing touches SP), `SUBQ $n, SP`, `body`
    (nothing touches SP), `ADDQ $n, SP`, `RET`, `tail` (out-of-line blocks, reached from the body) -/
def frameCode (pre : List Ins) (s1 : Nat) (n : Int) (body : List Ins) (s2 s3 : Nat) (tail : List Ins) : List Ins :=
  pre ++ (⟨s1, .push n⟩ :: (body ++ (⟨s2, .pop n⟩ :: ⟨s3, .ret⟩ :: tail)))

def NoSp (l : List Ins) : Prop := ∀ i ∈ l, i.eff = SpEffect.none

/-- what the frame really is at `pc` for that shape: 0 until the SUBQ has executed, `n` through the
    body and the ADDQ itself, 0 at the RET, `n` in the tail, nothing past the end -/
def regionDelta (a b c e : Nat) (n : Int) (pc : Nat) : Option Int :=
  if pc < a then some 0 else if pc < b then some n else if pc < c then some 0 else if pc < e then some n else none

/-- facts about the emitting code of one assembler, regenerated by go/factx_frames -/
structure CodeShape where
  name         : String
  stages       : List String                       -- calls made by compile(), in order
  firstInstr   : String × String                   -- (function, mnemonic) of the first instruction compile() emits
  spWriters    : List (String × String × Int)      -- (function, mnemonic, immediate) of every instruction whose destination is SP
  rets         : List String                       -- functions that emit RET
  retFollowsAdd : Bool                             -- the statement after the `ADDQ $n, SP` is `Emit("RET")`
  pushPops     : List (String × String)            -- PUSH*/POP*/ADJSP anywhere
  otherSp      : List (String × String)            -- any other instruction with SP as destination
  rawBytes     : List (List Nat)                   -- distinct literal `self.Byte(...)` sequences
  spFnCalls    : List (String × Nat)               -- call sites of the functions holding the SUBQ / ADDQ / RET
deriving Repr

/-- raw byte sequences known not to touch SP: INT3, `LEAQ d32(PC), R9`, `LEAQ d32(PC), DI`, a zero
    table entry -/
def rawBytesAllowed : List (List Nat) := [[0xcc], [0x4c, 0x8d, 0x0d], [0x48, 0x8d, 0x3d], [0, 0, 0, 0]]

/-- the emitted stream is `SUBQ $n, SP` first, then code that leaves SP alone, then exactly one
    `ADDQ $n, SP; RET`, then code that leaves SP alone - i.e. `frameCode [] _ n body _ _ tail`:
    * the first instruction `compile()` emits is the SUBQ;
    * SUBQ / ADDQ with SP as destination occur once each, both with the frame size;
    * RET occurs once, as the statement after the ADDQ; no PUSH/POP/ADJSP, no other write of SP;
    * the functions holding them are stages of `compile()` called from nowhere else (or `compile` itself);
    * raw byte sequences are known encodings that do not touch SP -/
def CodeShape.ok (c : CodeShape) (frameSize : Nat) : Bool :=
  c.firstInstr.2 == "SUBQ" &&
  c.spWriters.length == 2 &&
  c.spWriters.any (fun w => w.2.1 == "SUBQ" && w.1 == c.firstInstr.1 && w.2.2 == (frameSize : Int)) &&
  c.spWriters.any (fun w => w.2.1 == "ADDQ" && c.rets.contains w.1 && w.2.2 == (frameSize : Int)) &&
  c.rets.length == 1 && c.retFollowsAdd && c.pushPops.isEmpty && c.otherSp.isEmpty &&
  c.spFnCalls.all (fun fc => (fc.1 == "compile" && fc.2 == 0 && c.stages.isEmpty) ||
                             (fc.2 == 1 && (c.stages.filter (· == fc.1)).length == 1)) &&
  (c.stages.isEmpty || c.stages.head? == some c.firstInstr.1) &&
  c.rawBytes.all (fun b => rawBytesAllowed.contains b)

/-- (field, offset, size, shape) -/
abbrev FieldLayout := String × Nat × Nat × String

/-- one access of the encoder's state stack in generated code: `disp(ST)(idx)` with the register moved -/
structure StateAccess where
  fn    : String      -- emitting function (save_state / drop_state)
  op    : String      -- mnemonic, or `WritePtr` (store with write barrier)
  reg   : String      -- the register variable on the other side (`_SP_x`, …, `_X0`)
  disp  : Nat
deriving Repr, DecidableEq

/-- one call of `runtime.mallocgc(size, typ, needzero)`: from Go code (`via = "go"`, `typ` / `needzero` are
    the argument expressions as written) or emitted by a JIT assembler (`via = "jit"`, what is moved
    into BX / CX before `call_go(_F_mallocgc)`) -/
structure RawAlloc where
  file     : String
  fn       : String
  via      : String
  typ      : String
  needzero : String
deriving Repr, DecidableEq

/-- `needzero` is the constant true -/
def RawAlloc.zeroed (a : RawAlloc) : Bool := a.needzero == "true" || a.needzero == "MOVB jit.Imm(1)"

/-- one `rt.NoEscape(unsafe.Pointer(&x))`: operand, the call it is an argument of, the innermost
    enclosing `if` (`then:<cond>` / `else:<cond>` / empty) -/
structure NoEscapeSite where
  file    : String
  fn      : String
  operand : String
  callee  : String
  guard   : String
deriving Repr, DecidableEq

end SonicSpec.Loader
