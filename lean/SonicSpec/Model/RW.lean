/-
  C16 (core `RW`) - concurrently readable `ast.Node`: the node's representation fields
  `(t, l, p, m)` as shared memory, thread programs at the granularity of INDIVIDUAL field
  reads/writes, atomic operations on `t` and mutex operations, an interleaving semantics
  `step : State → Tid → State` (executions = arbitrary schedules `List Nat`, any number of
  threads), happens-before bookkeeping (RWMutex release/acquire, release-store/acquire-load of
  `t`) with a data-race detector, and the static access discipline `safe`.  Besides the node's own
  fields the pseudo field `c` stands for the memory behind `p` (children container, hash index, child
  slots): the parser writes it under the write lock before assign, the reads follow it afterwards.
  Core Lean only.

  Programs are not written by hand: `progOf tbl fn` compiles the event list that
  `go/factx_access` regenerates from the Go source (`Generated/Access.lean`).

  Source transliterated (pinned tree):
    ast/node.go:57    type Node struct { t; l; p; m *sync.RWMutex }
    ast/parser.go:752 loadt   = atomic.LoadInt64(&self.t)
    ast/parser.go:756 lock/unlock/rlock/runlock: `if m := self.m; m != nil { m.Lock() … }`
    ast/node.go:2013  parseRaw: lock(); defer unlock(); re-check isRaw(); toString(); Parse; assign
    ast/node.go:2039  assign: self.l = n.l; self.p = n.p; atomic.StoreInt64(&self.t, n.t)
    ast/node.go:195   checkRaw: loadt; if raw → parseRaw(false); checkFast
    ast/node.go:176   Raw: rlock; isRaw? toString under the read lock : runlock; MarshalJSON
    ast/encode.go:94  MarshalJSON: `if self.isRaw() { return toString() }`   -- NO lock
    ast/encode.go:168 encodeRaw: rlock; isRaw? toString : runlock; encode
-/
import SonicSpec.Model.RWAccess
namespace SonicSpec.RW

/-! ## 1. from the flattened event lists back to structured statements -/

inductive Stmt
  | ev (e : Ev)
  | ite (c : Cond) (neg : Bool) (thn els : List Stmt)
  | loop (body : List Stmt)
  | switch (cases : List (List Stmt)) (dflt : Option (List Stmt))

mutual
/-- parse a statement sequence; stops in front of a closing marker (`els ifE loopE cas dflt swE`) -/
def parseSeq : Nat → List Ev → Option (List Stmt × List Ev)
  | 0, _ => none
  | _ + 1, [] => some ([], [])
  | n + 1, e :: r =>
    match e with
    | .els | .ifE | .loopE | .cas | .dflt | .swE => some ([], e :: r)
    | .ifB c neg =>
      match parseSeq n r with
      | some (thn, .ifE :: r2) =>
        match parseSeq n r2 with
        | some (k, r3) => some (.ite c neg thn [] :: k, r3)
        | none => none
      | some (thn, .els :: r2) =>
        match parseSeq n r2 with
        | some (el, .ifE :: r4) =>
          match parseSeq n r4 with
          | some (k, r5) => some (.ite c neg thn el :: k, r5)
          | none => none
        | _ => none
      | _ => none
    | .loopB =>
      match parseSeq n r with
      | some (body, .loopE :: r2) =>
        match parseSeq n r2 with
        | some (k, r3) => some (.loop body :: k, r3)
        | none => none
      | _ => none
    | .swB =>
      match parseCases n r [] none with
      | some (cs, d, r2) =>
        match parseSeq n r2 with
        | some (k, r3) => some (.switch cs d :: k, r3)
        | none => none
      | none => none
    | _ =>
      match parseSeq n r with
      | some (k, r1) => some (.ev e :: k, r1)
      | none => none

/-- the clauses of a switch (after `swB`), up to and including `swE` -/
def parseCases : Nat → List Ev → List (List Stmt) → Option (List Stmt) → Option (List (List Stmt) × Option (List Stmt) × List Ev)
  | 0, _, _, _ => none
  | _ + 1, .swE :: r, cs, d => some (cs.reverse, d, r)
  | n + 1, .cas :: r, cs, d =>
    match parseSeq n r with
    | some (body, r2) => parseCases n r2 (body :: cs) d
    | none => none
  | n + 1, .dflt :: r, cs, _ =>
    match parseSeq n r with
    | some (body, r2) => parseCases n r2 cs (some body)
    | none => none
  | _ + 1, _, _, _ => none
end

def parseFn (evs : List Ev) : Option (List Stmt) :=
  match parseSeq (evs.length + 1) evs with
  | some (s, []) => some s
  | _ => none

abbrev RawTable := List (String × List Ev)
abbrev Table := List (String × List Stmt)

def parseTable : RawTable → Option Table
  | [] => some []
  | (n, evs) :: r =>
    match parseFn evs, parseTable r with
    | some s, some t => some ((n, s) :: t)
    | _, _ => none

/-! ## 2. micro-operations and thread programs -/

/-- one shared-memory (or lock) step of a thread on the node -/
inductive Op
  | loadT      -- atomic.LoadInt64(&self.t)            (acquire)
  | storeT     -- atomic.StoreInt64(&self.t, n.t)      (release; n.t is a parsed, non-raw type)
  | readT | readL | readP | readM     -- plain reads
  | writeL | writeP                   -- plain writes of the new generation (assign)
  | readC                             -- plain read of memory reachable through p (container, child slots)
  | writeC                            -- plain write of such memory (the parser building the children)
  | writeAll                          -- `*self = …` (plain write of t, l, p, m; m becomes nil)
  | acqW | acqR | relW | relR         -- m.Lock() / m.RLock() / m.Unlock() / m.RUnlock()
  | setLockVar                        -- `lock := <result of lock()/rlock()>` (thread-local)
  deriving DecidableEq, Repr

/-- thread program: a tree; every branch carries its own continuation.  `loop cur body k` is a
    loop whose body is a straight line of read operations (`cur` = rest of the current iteration). -/
inductive Prog
  | done
  | abort                                   -- something the model does not cover was reached
  | op (o : Op) (k : Prog)
  | br (c : Cond) (a b : Prog)              -- `a` if the condition holds
  | loop (cur body : List Op) (k : Prog)
  deriving Repr, DecidableEq

def Prog.seqOps : List Op → Prog → Prog
  | [], k => k
  | o :: r, k => .op o (Prog.seqOps r k)

/-- static value of a condition, if it has one in the model:
    `self == nil` is false (the shared node exists); `isLazy()` is false (the value `assign` stores
    into a concurrently readable node is never lazy: parseRaw sets `noLazy = loadOnce = true`, and
    under these flags the parser builds no lazy node - a regenerated fact, see Model/RWParse.lean and
    Props.C16.parser_builds_locked_raw_children_never_lazy); a bool parameter has the value of the
    call's literal argument. -/
def constCond (c : Cond) (param : Arg) : Option Bool :=
  match c with
  | .selfNil => some false
  | .lazy => some false
  | .param => match param with | .tru => some true | .fls => some false | _ => none
  | _ => none

def lookupFn (tbl : Table) (fn : String) : Option (List Stmt) := tbl.lookup fn

mutual
/-- straight-line over-approximation of a loop body: all reads it may perform, in order
    (second component: the statement list certainly returned) -/
def flatReads (tbl : Table) : Nat → Arg → List Stmt → Option (List Op × Bool)
  | 0, _, _ => none
  | _ + 1, _, [] => some ([], false)
  | n + 1, param, s :: rest =>
    let cont := fun (ops : List Op) (returned : Bool) =>
      if returned then some (ops, true) else
      match flatReads tbl n param rest with
      | some (ops2, r2) => some (ops ++ ops2, r2)
      | none => none
    match s with
    | .ev e =>
      match e with
      | .aload .t => cont [.loadT] false
      | .rd .t => cont [.readT] false
      | .rd .l => cont [.readL] false
      | .rd .p => cont [.readP] false
      | .rd .m => cont [.readM] false
      | .rd .c => cont [.readC] false
      | .rdAll | .valueRecv => cont [.readT, .readL, .readP, .readM] false
      | .call fn a | .callSet fn a =>
        match lookupFn tbl fn with
        | some body =>
          match flatReads tbl n a body with
          | some (ops, _) => cont ops false
          | none => none
        | none => none
      | .ret | .panic => some ([], true)
      | .brk | .cont | .newRaw _ | .newLazy | .pset _ _ | .mkMutex | .callCopy _ | .gotoFwd | .label => cont [] false
      | _ => none
    | .ite c neg thn els =>
      match constCond c param with
      | some v =>
        match flatReads tbl n param (if v != neg then thn else els) with
        | some (ops, r) => cont ops r
        | none => none
      | none =>
        match flatReads tbl n param thn, flatReads tbl n param els with
        | some (o1, r1), some (o2, r2) => cont (o1 ++ o2) (r1 && r2)
        | _, _ => none
    | .loop body =>
      match flatReads tbl n param body with
      | some (ops, _) => cont ops false
      | none => none
    | .switch cs d =>
      match flatCases tbl n param cs, (match d with | some b => flatReads tbl n param b | none => some ([], false)) with
      | some o1, some (o2, _) => cont (o1 ++ o2) false
      | _, _ => none

def flatCases (tbl : Table) : Nat → Arg → List (List Stmt) → Option (List Op)
  | 0, _, _ => none
  | _ + 1, _, [] => some []
  | n + 1, param, c :: cs =>
    match flatReads tbl n param c, flatCases tbl n param cs with
    | some (o1, _), some o2 => some (o1 ++ o2)
    | _, _ => none
end

mutual
/-- lower a statement list to a program tree.  `k` = continuation when the list falls through,
    `retK` = continuation of `return` (deferred calls already folded in), `brkK` = continuation of
    `break` inside a switch clause. -/
def lower (tbl : Table) : Nat → Arg → List Stmt → Prog → Prog → Option Prog → Prog
  | 0, _, _, _, _, _ => .abort
  | _ + 1, _, [], k, _, _ => k
  | n + 1, param, s :: rest, k, retK, brkK =>
    let kk := lower tbl n param rest k retK brkK
    match s with
    | .ev e =>
      match e with
      | .aload .t => .op .loadT kk
      | .astore .t => .op .storeT kk
      | .rd .t => .op .readT kk
      | .rd .l => .op .readL kk
      | .rd .p => .op .readP kk
      | .rd .m => .op .readM kk
      | .rd .c => .op .readC kk
      | .wr .c => .op .writeC kk
      | .parse => .op .writeC kk
      | .wr .l => .op .writeL kk
      | .wr .p => .op .writeP kk
      | .rdAll | .valueRecv => .op .readT (.op .readL (.op .readP (.op .readM kk)))
      | .wrAll => .op .writeAll kk
      | .mcall .Lock => .op .acqW kk
      | .mcall .RLock => .op .acqR kk
      | .mcall .Unlock => .op .relW kk
      | .mcall .RUnlock => .op .relR kk
      | .call fn a =>
        match lookupFn tbl fn with
        | some body => lower tbl n a body kk kk none
        | none => .abort
      | .callSet fn a =>
        match lookupFn tbl fn with
        | some body => lower tbl n a body (.op .setLockVar kk) (.op .setLockVar kk) none
        | none => .abort
      | .deferCall fn =>
        match lookupFn tbl fn with
        | some body =>
          -- the deferred call runs at every exit of the rest of this function body
          let k' := lower tbl n .none body k k none
          let retK' := lower tbl n .none body retK retK none
          lower tbl n param rest k' retK' brkK
        | none => .abort
      | .ret => retK
      | .panic => .done
      | .brk => match brkK with | some b => b | none => .abort
      | .newRaw _ | .newLazy | .pset _ _ | .mkMutex | .gotoFwd | .label => kk
      | _ => .abort
    | .ite c neg thn els =>
      match constCond c param with
      | some v => lower tbl n param (if v != neg then thn else els) kk retK brkK
      | none =>
        let a := lower tbl n param thn kk retK brkK
        let b := lower tbl n param els kk retK brkK
        if neg then .br c b a else .br c a b
    | .loop body =>
      match flatReads tbl n param body with
      | some (ops, _) => .loop [] ops kk
      | none => .abort
    | .switch cs d =>
      let last := match d with
        | some b => lower tbl n param b kk retK (some kk)
        | none => kk
      lowerCases tbl n param cs kk retK last

def lowerCases (tbl : Table) : Nat → Arg → List (List Stmt) → Prog → Prog → Prog → Prog
  | 0, _, _, _, _, _ => .abort
  | _ + 1, _, [], _, _, last => last
  | n + 1, param, c :: cs, kk, retK, last =>
    .br .opaque (lower tbl n param c kk retK (some kk)) (lowerCases tbl n param cs kk retK last)
end

/-- inlining / recursion fuel used everywhere (deep enough for every listed entry point) -/
def fuel : Nat := 400

/-- the program of a documented operation `self.fn(…)` on the shared node -/
def progOf (raw : RawTable) (fn : String) : Option Prog :=
  match parseTable raw with
  | some tbl =>
    match lookupFn tbl fn with
    | some body => some (lower tbl fuel .none body .done .done none)
    | none => none
  | none => none

def Prog.hasAbort : Prog → Bool
  | .done => false
  | .abort => true
  | .op _ k => k.hasAbort
  | .br _ a b => a.hasAbort || b.hasAbort
  | .loop _ _ k => k.hasAbort

def Prog.size : Prog → Nat
  | .done => 1
  | .abort => 1
  | .op _ k => k.size + 1
  | .br _ a b => a.size + b.size + 1
  | .loop _ _ k => k.size + 1

/-! ## 3. shared state, happens-before bookkeeping, interleaving semantics -/

/-- abstract value of the type word `t`: the `_V_RAW` bit set / a parsed (non-raw, non-lazy) type / V_ERROR -/
inductive TV | raw | parsed | err
  deriving DecidableEq, Repr

/-- one recorded memory access; `id` = its position in the history (fresh, unique) -/
structure Acc where
  id : Nat
  tid : Nat
  f : Fld
  wr : Bool
  atomic : Bool
  deriving DecidableEq, Repr

/-- shared node.  `tg/l/p` are GENERATION tags: generation 0 = the raw JSON text
    (`t` has the raw bit, `(p,l)` = pointer/length of the text), generation g+1 = the value written
    by a conversion that read generation g.
    `w/r` = state of the node's `sync.RWMutex` (writer, readers).
    `relW/relR/relT` = the sets of accesses published by `Unlock`, `RUnlock` and the release-store
    of `t`; happens-before edges are acquired from them (Go memory model: `Lock` returns after the
    earlier `Unlock`s and `RUnlock`s, `RLock` after the earlier `Unlock`s, an atomic load observes
    the earlier atomic stores).
    `wl/wp/wc` are ghosts: inside the current conversion `l` / `p` / memory behind `p` has already
    been written. -/
structure Sh where
  t : TV
  tg : Nat
  l : Nat
  p : Nat
  m : Bool            -- self.m != nil
  w : Option Nat      -- thread holding the write lock
  r : List Nat        -- threads holding the read lock
  wl : Bool
  wp : Bool
  wc : Bool
  hist : List Acc
  relW : List Nat
  relR : List Nat
  relT : List Nat
  race : Bool         -- a data race has been detected
  deriving Repr, DecidableEq

structure Th where
  prog : Prog
  orc : List Bool                 -- thread-local oracle: outcome of the opaque (data-dependent) branches
  tv : Option (TV × Nat)          -- value/generation of the last atomic load (or own store) of t
  lg : Option Nat                 -- generation of l read since then
  pg : Option Nat                 -- generation of p read since then
  mv : Bool                       -- last value read from m (non-nil?)
  lockv : Bool                    -- the `lock` variable
  hb : List Nat                   -- accesses that happen-before the thread's next step
  fault : Bool                    -- unlocked a mutex it does not hold
  deriving Repr, DecidableEq

structure State where
  sh : Sh
  ths : List Th
  deriving Repr, DecidableEq

def Sh.init : Sh :=
  { t := .raw, tg := 0, l := 0, p := 0, m := true, w := none, r := [], wl := false, wp := false, wc := false,
    hist := [], relW := [], relR := [], relT := [], race := false }

def Th.init (p : Prog) (orc : List Bool) : Th :=
  { prog := p, orc := orc, tv := none, lg := none, pg := none, mv := false, lockv := false,
    hb := [], fault := false }

/-- initial state: a node obtained with ConcurrentRead / NewRawConcurrentRead (raw, own mutex),
    thread `i` runs `(ps[i]).1` with oracle `(ps[i]).2` -/
def State.init (ps : List (Prog × List Bool)) : State :=
  { sh := Sh.init, ths := ps.map fun p => Th.init p.1 p.2 }

/-- the node after `Load()`/`LoadAll()` has returned (single-threaded, before it is shared): already
    converted - generation 1 everywhere; its container children are fresh raw nodes with their own
    mutex, i.e. further instances of `State.init` -/
def Sh.initLoaded : Sh := { Sh.init with t := .parsed, tg := 1, l := 1, p := 1 }

def State.initLoaded (ps : List (Prog × List Bool)) : State :=
  { sh := Sh.initLoaded, ths := ps.map fun p => Th.init p.1 p.2 }

/-- two accesses conflict: same field, different threads, at least one a write, not both atomic -/
def conflict (a b : Acc) : Bool :=
  a.f == b.f && a.tid != b.tid && (a.wr || b.wr) && !(a.atomic && b.atomic)

/-- DATA RACE: the new access `a` conflicts with an earlier access that does not happen-before it -/
def races (hist : List Acc) (hb : List Nat) (a : Acc) : Bool :=
  hist.any fun b => conflict b a && !hb.contains b.id

/-- the access record of thread `i` made in shared state `sh` -/
def mkAcc (i : Nat) (f : Fld) (wr atomic : Bool) (sh : Sh) : Acc :=
  { id := sh.hist.length, tid := i, f := f, wr := wr, atomic := atomic }

/-- record an access (race check against the history, extend the history) -/
def Sh.record (sh : Sh) (hb : List Nat) (a : Acc) : Sh :=
  { sh with hist := a :: sh.hist, race := sh.race || races sh.hist hb a }

def genOf (th : Th) : Nat := match th.tv with | some (_, g) => g | none => 0

/-- execute one operation of thread `i`, continuing with `k`.  A thread blocked on the mutex does
    not move. -/
def execOp (i : Nat) (sh : Sh) (th : Th) (o : Op) (k : Prog) : Sh × Th :=
  match o with
  | .loadT =>
    let a := mkAcc i .t false true sh
    (sh.record th.hb a,
     { th with prog := k, tv := some (sh.t, sh.tg), lg := none, pg := none, hb := sh.relT ++ (a.id :: th.hb) })
  | .storeT =>
    let a := mkAcc i .t true true sh
    let g := genOf th + 1
    ({ sh.record th.hb a with t := .parsed, tg := g, wl := false, wp := false, wc := false, relT := (a.id :: th.hb) ++ sh.relT },
     { th with prog := k, tv := some (.parsed, g), lg := none, pg := none, hb := a.id :: th.hb })
  | .readT =>
    let a := mkAcc i .t false false sh
    (sh.record th.hb a, { th with prog := k, hb := a.id :: th.hb })
  | .readL =>
    let a := mkAcc i .l false false sh
    (sh.record th.hb a, { th with prog := k, lg := some sh.l, hb := a.id :: th.hb })
  | .readP =>
    let a := mkAcc i .p false false sh
    (sh.record th.hb a, { th with prog := k, pg := some sh.p, hb := a.id :: th.hb })
  | .readM =>
    let a := mkAcc i .m false false sh
    (sh.record th.hb a, { th with prog := k, mv := sh.m, hb := a.id :: th.hb })
  | .writeL =>
    let a := mkAcc i .l true false sh
    ({ sh.record th.hb a with l := genOf th + 1, wl := true }, { th with prog := k, hb := a.id :: th.hb })
  | .writeP =>
    let a := mkAcc i .p true false sh
    ({ sh.record th.hb a with p := genOf th + 1, wp := true }, { th with prog := k, hb := a.id :: th.hb })
  | .readC =>
    let a := mkAcc i .c false false sh
    (sh.record th.hb a, { th with prog := k, hb := a.id :: th.hb })
  | .writeC =>
    let a := mkAcc i .c true false sh
    ({ sh.record th.hb a with wc := true }, { th with prog := k, hb := a.id :: th.hb })
  | .writeAll =>
    let a1 := mkAcc i .t true false sh
    let sh1 := sh.record th.hb a1
    let a2 := mkAcc i .l true false sh1
    let sh2 := sh1.record (a1.id :: th.hb) a2
    let a3 := mkAcc i .p true false sh2
    let sh3 := sh2.record (a2.id :: a1.id :: th.hb) a3
    let a4 := mkAcc i .m true false sh3
    let sh4 := sh3.record (a3.id :: a2.id :: a1.id :: th.hb) a4
    let g := genOf th + 1
    ({ sh4 with t := .err, tg := g, l := g, p := g, m := false },
     { th with prog := k, tv := some (.err, g), lg := none, pg := none, hb := a4.id :: a3.id :: a2.id :: a1.id :: th.hb })
  | .acqW =>
    if sh.w = none ∧ sh.r = [] then
      ({ sh with w := some i }, { th with prog := k, hb := sh.relW ++ (sh.relR ++ th.hb) })
    else (sh, th)
  | .acqR =>
    if sh.w = none then
      ({ sh with r := i :: sh.r }, { th with prog := k, hb := sh.relW ++ th.hb })
    else (sh, th)
  | .relW =>
    if sh.w = some i then ({ sh with w := none, relW := th.hb ++ sh.relW }, { th with prog := k })
    else (sh, { th with prog := .done, fault := true })
  | .relR =>
    if i ∈ sh.r then ({ sh with r := sh.r.filter (· != i), relR := th.hb ++ sh.relR }, { th with prog := k })
    else (sh, { th with prog := .done, fault := true })
  | .setLockVar => (sh, { th with prog := k, lockv := th.mv })

/-- value of a branch condition for a thread; `pf` = "the parser rejects the text" -/
def evalCond (pf : Bool) (th : Th) (c : Cond) : Bool × List Bool :=
  match c with
  | .raw => (match th.tv with | some (.raw, _) => true | _ => false, th.orc)
  | .tErr => (match th.tv with | some (.err, _) => true | _ => false, th.orc)
  | .tAny => (match th.tv with | some (.parsed, _) => th.orc.headD false | _ => false, th.orc.tail)
  | .mNonNil => (th.mv, th.orc)
  | .lockVar => (th.lockv, th.orc)
  | .parseErr => (pf, th.orc)
  | _ => (th.orc.headD false, th.orc.tail)

def stepTh (pf : Bool) (i : Nat) (sh : Sh) (th : Th) : Sh × Th :=
  match th.prog with
  | .done => (sh, th)
  | .abort => (sh, th)
  | .op o k => execOp i sh th o k
  | .br c a b =>
    (sh, { th with prog := if (evalCond pf th c).1 then a else b, orc := (evalCond pf th c).2 })
  | .loop [] body k =>
    if th.orc.headD false then (sh, { th with prog := .loop body body k, orc := th.orc.tail })
    else (sh, { th with prog := k, orc := th.orc.tail })
  | .loop (o :: cur) body k => execOp i sh th o (.loop cur body k)

/-- interleaving semantics: thread `i` performs its next micro-step -/
def step (pf : Bool) (s : State) (i : Nat) : State :=
  match s.ths[i]? with
  | none => s
  | some th => { sh := (stepTh pf i s.sh th).1, ths := s.ths.set i (stepTh pf i s.sh th).2 }

/-- an execution = an arbitrary schedule -/
def run (pf : Bool) (s : State) : List Nat → State
  | [] => s
  | i :: sched => run pf (step pf s i) sched

/-! ## 4. what is observed -/

/-- a thread's current view is TORN if the fields it read since its last atomic load of `t` are of
    different generations, or not of the generation of that `t`; a raw `t` must come with the raw
    text (generation 0), a parsed `t` with the parsed representation (generation 1). -/
def Th.viewOK (th : Th) : Bool :=
  match th.tv with
  | none => th.lg == none && th.pg == none
  | some (v, g) =>
    (match th.lg with | some a => a == g | none => true) &&
    (match th.pg with | some b => b == g | none => true) &&
    (match v with | .raw => g == 0 | .parsed => g == 1 | .err => true)

def Th.torn (th : Th) : Bool := !th.viewOK

/-- snapshot a read returns: (type word and its generation, generation of l, generation of p) -/
def Th.view (th : Th) : Option (TV × Nat) × Option Nat × Option Nat := (th.tv, th.lg, th.pg)

/-! ## 5. the static access discipline -/

inductive Know | none | unk | raw | nonraw
  deriving DecidableEq, Repr

/-- abstract thread state of the discipline check -/
structure Abs where
  hR : Bool        -- holds the read lock
  hW : Bool        -- holds the write lock
  k : Know         -- what the last atomic load of t said
  lk : Bool        -- that load was made under a lock which is still held
  wl : Bool
  wp : Bool
  wc : Bool
  mread : Bool     -- `mv` holds the value of m
  lv : Bool        -- `lock` variable is known to be true
  deriving DecidableEq, Repr

def Abs.init : Abs := { hR := false, hW := false, k := .none, lk := false, wl := false, wp := false, wc := false, mread := false, lv := false }

/-- plain reads of t/l/p are allowed after an atomic load that said "not raw" (acquire of the
    release-store in assign), or after one that said "raw" made under a lock that is still held -/
def Abs.canRead (a : Abs) : Bool :=
  (a.k == .nonraw || (a.k == .raw && a.lk)) && !a.wl && !a.wp && !a.wc

def Abs.canWrite (a : Abs) : Bool := a.k == .raw && a.lk && a.hW

def absOp (a : Abs) (o : Op) : Option Abs :=
  match o with
  | .loadT =>
    if a.wl || a.wp || a.wc then none else
    if a.k == .nonraw then some a else some { a with k := .unk, lk := a.hR || a.hW }
  | .storeT => if a.canWrite && a.wl && a.wp then some { a with k := .nonraw, wl := false, wp := false, wc := false } else none
  | .readT | .readL | .readP | .readC => if a.canRead then some a else none
  | .writeC => if a.canWrite then some { a with wc := true } else none
  | .readM => some { a with mread := true }
  | .writeL => if a.canWrite && !a.wl then some { a with wl := true } else none
  | .writeP => if a.canWrite && !a.wp then some { a with wp := true } else none
  | .writeAll => none
  | .acqW => if !a.hR && !a.hW then some { a with hW := true } else none
  | .acqR => if !a.hR && !a.hW then some { a with hR := true } else none
  | .relW => if a.hW && !a.wl && !a.wp && !a.wc then some { a with hW := false, lk := false } else none
  | .relR => if a.hR then some { a with hR := false, lk := false } else none
  | .setLockVar => some { a with lv := a.mread }

/-- operations allowed in (flattened) loop bodies -/
def isLoopOp (o : Op) : Bool :=
  match o with
  | .loadT | .readT | .readL | .readP | .readC => true
  | _ => false

/-- `safe pf a P`: every path of `P`, started in abstract state `a`, respects the discipline.
    `pf = false`: the parser accepts the text, so the `e != 0` branches are dead. -/
def safe (pf : Bool) : Abs → Prog → Bool
  | a, .done => !a.hR && !a.hW
  | _, .abort => false
  | a, .op o k => match absOp a o with | some a' => safe pf a' k | none => false
  | a, .br c x y =>
    match c with
    | .raw =>
      match a.k with
      | .none => false
      | .unk => safe pf { a with k := .raw } x && safe pf { a with k := .nonraw } y
      | .raw => safe pf a x
      | .nonraw => safe pf a y
    | .tErr =>
      match a.k with
      | .none => false
      | .unk => safe pf { a with k := .nonraw } x && safe pf a y
      | .raw => safe pf a y
      | .nonraw => safe pf a x && safe pf a y
    | .tAny =>
      match a.k with
      | .none => false
      | .unk => safe pf { a with k := .nonraw } x && safe pf a y
      | .raw => safe pf a y
      | .nonraw => safe pf a x && safe pf a y
    | .mNonNil => if a.mread then safe pf a x else false
    | .lockVar => if a.lv then safe pf a x else safe pf a x && safe pf a y
    | .parseErr => if pf then safe pf a x else safe pf a y
    | _ => safe pf a x && safe pf a y
  | a, .loop cur body k =>
    a.k == .nonraw && !a.wl && !a.wp && !a.wc && cur.all isLoopOp && body.all isLoopOp && safe pf a k

/-- a documented read operation (compiled from the regenerated facts) respects the discipline,
    for a text the parser accepts (`pf = false`) / rejects (`pf = true`) -/
def disciplinedAt (pf : Bool) (raw : RawTable) (fn : String) : Bool :=
  match progOf raw fn with
  | some p => safe pf Abs.init p
  | none => false

def disciplined (raw : RawTable) (fn : String) : Bool := disciplinedAt false raw fn

/-- the table with one function's event list replaced (used to model a repaired / a pinned variant) -/
def override (raw : RawTable) (fn : String) (evs : List Ev) : RawTable :=
  raw.map fun e => if e.1 == fn then (fn, evs) else e

/-! ## 6. derived facts about the construction of children (assumption A1 and "children own a mutex") -/

/-- all `newRawNode` lock arguments / lazy constructors that occur in a function, in order -/
def constructions (evs : List Ev) : List Ev :=
  evs.filter fun e => match e with | .newRaw _ | .newLazy | .mkMutex => true | _ => false

end SonicSpec.RW
