/-
  Core G (C08/C09): the open-addressing program map of `internal/caching/pcache.go`
  (`_ProgramMap`: get / insert / rehash / add), transliterated.  Core Lean only.

  Keys are compared by identity (`b.vt == vt`, pointer comparison in the source); the probe start
  is `hash k &&& mask` where `hash` is an ARBITRARY function of the key (in the source: the field
  `rt.GoType.Hash`), so any collision pattern - including all keys on one slot - is covered.

  Arithmetic is on `Nat`: the source uses `uint32` for the mask / probe index; the model therefore
  speaks about tables of capacity < 2^32 slots (recorded as an assumption of the check).
-/
namespace SonicSpec.Conc

/-- `_ProgramMap` (pcache.go:34): `n` entries, mask `m` = capacity-1, buckets `b`;
    an empty bucket is `vt == nil`. -/
structure PMap (κ γ : Type) where
  n : Nat
  mask : Nat
  b : List (Option (κ × γ))
deriving Repr

namespace PMap
variable {κ γ : Type} [DecidableEq κ]

/-- bucket `p` (`self.b[p]`); out of range reads as empty (the source would panic; `Inv` excludes it) -/
def slot (b : List (Option (κ × γ))) (p : Nat) : Option (κ × γ) := (b[p]?).getD none

/-- `newProgramMap` (pcache.go:45) with the initial capacity as a parameter (`_InitCapacity` = 4096) -/
def empty (cap : Nat) : PMap κ γ := { n := 0, mask := cap - 1, b := List.replicate cap none }

/-- the probing loop of `get` (pcache.go:70-78): `fuel` = remaining iterations `i` -/
def probeGet (b : List (Option (κ × γ))) (mask : Nat) (k : κ) : Nat → Nat → Option γ
  | 0, _ => none
  | fuel + 1, p =>
    match slot b p with
    | some (k', v) => if k' = k then some v else probeGet b mask k fuel ((p + 1) &&& mask)
    | none => none

/-- `(*_ProgramMap).get` (pcache.go:65): `i := m+1; p := vt.Hash & m` -/
def get (hash : κ → Nat) (m : PMap κ γ) (k : κ) : Option γ :=
  probeGet m.b m.mask k (m.mask + 1) (hash k &&& m.mask)

/-- the probing loop of `insert` (pcache.go:118-128): first empty bucket, at most `m+1` probes -/
def probeFree (b : List (Option (κ × γ))) (mask : Nat) : Nat → Nat → Option Nat
  | 0, _ => none
  | fuel + 1, p =>
    match slot b p with
    | some _ => probeFree b mask fuel ((p + 1) &&& mask)
    | none => some p

/-- `(*_ProgramMap).insert` (pcache.go:113).  `none` from the probe is the source's
    `panic("no available slots")`; the model leaves the table unchanged there and
    `Props.C08.insert_never_panics` shows the branch is dead under the invariant. -/
def insert (hash : κ → Nat) (m : PMap κ γ) (k : κ) (v : γ) : PMap κ γ :=
  match probeFree m.b m.mask (m.mask + 1) (hash k &&& m.mask) with
  | some p => { m with b := m.b.set p (some (k, v)), n := m.n + 1 }
  | none => m

/-- body of the loop of `rehash` (pcache.go:104-106): `if b.vt != nil { r.insert(b.vt, b.fn) }` -/
def reinsert (hash : κ → Nat) (r : PMap κ γ) (e : Option (κ × γ)) : PMap κ γ :=
  match e with
  | some (k, v) => insert hash r k v
  | none => r

/-- `(*_ProgramMap).rehash` (pcache.go:98): capacity doubled, every occupied bucket re-inserted
    in bucket order -/
def rehash (hash : κ → Nat) (m : PMap κ γ) : PMap κ γ :=
  m.b.foldl (reinsert hash) (empty ((m.mask + 1) <<< 1))

/-- the load-factor test of `add` (pcache.go:86-89): `float64(n+1)/float64(m+1) > 0.5`
    (exact in binary floating point because `m+1` is a power of two) -/
def needRehash (m : PMap κ γ) : Bool := decide (m.mask + 1 < 2 * (m.n + 1))

/-- `(*_ProgramMap).add` (pcache.go:84): works on a copy (`self.copy()` is the identity on values) -/
def add (hash : κ → Nat) (m : PMap κ γ) (k : κ) (v : γ) : PMap κ γ :=
  let p := m
  let p := if needRehash p then rehash hash p else p
  insert hash p k v

/-! ### executable invariant check (applied by the driver to tables dumped from the real cache;
    `Props.C08.invCheck_sound` shows it implies `Inv`) -/

/-- like `probeGet`, but answers the bucket index at which the key is found -/
def probeIdx (b : List (Option (κ × γ))) (mask : Nat) (k : κ) : Nat → Nat → Option Nat
  | 0, _ => none
  | fuel + 1, p =>
    match slot b p with
    | some (k', _) => if k' = k then some p else probeIdx b mask k fuel ((p + 1) &&& mask)
    | none => none

def isPow2 : Nat → Nat → Bool
  | 0, _ => false
  | fuel + 1, c => c == 1 || (c % 2 == 0 && isPow2 fuel (c / 2))

def chkPow2 (m : PMap κ γ) : Bool := isPow2 64 (m.mask + 1)
def chkLen (m : PMap κ γ) : Bool := m.b.length == m.mask + 1
def chkCount (m : PMap κ γ) : Bool := m.n == m.b.countP Option.isSome
def chkLoad (m : PMap κ γ) : Bool := decide (2 * m.n ≤ m.mask + 1)
/-- every occupied bucket is the one the probe sequence of its own key stops at
    (gives reachability without tombstones AND that no key is stored twice) -/
def chkHome (hash : κ → Nat) (m : PMap κ γ) : Bool :=
  (List.range (m.mask + 1)).all fun i =>
    match slot m.b i with
    | none => true
    | some (k, _) => probeIdx m.b m.mask k (m.mask + 1) (hash k &&& m.mask) == some i

def invCheck (hash : κ → Nat) (m : PMap κ γ) : Bool :=
  chkPow2 m && chkLen m && chkCount m && chkLoad m && chkHome hash m

/-- the association list of occupied buckets, in bucket order (for dumps) -/
def entries (m : PMap κ γ) : List (Nat × κ × γ) :=
  (m.b.zipIdx).filterMap fun (e, i) => e.map fun (k, v) => (i, k, v)

end PMap
end SonicSpec.Conc
