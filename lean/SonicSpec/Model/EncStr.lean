/-
  Enc core, string/byte level pieces of the Marshal specification (core Lean only):
  UTF-8 segmentation with Go's `utf8.DecodeRune` semantics, the string literal writer of
  encoding/json (`appendString`, GOROOT/src/encoding/json/encode.go:967) parameterised by the
  sonic switches that change it, a minimal unquote (enough to state "denotes the same string"),
  decimal integers, base64 (std alphabet, padded).
-/
import SonicSpec.Model.Hex
namespace SonicSpec.Enc

/-! ### UTF-8 segmentation -/

def isCont (c : UInt8) : Bool := c ≥ 128 && c ≤ 191

/-- length of the well-formed UTF-8 sequence at the head (Unicode table 3-7, what
    `utf8.DecodeRune` accepts): 1 for ASCII, 2..4 for a well-formed multi-byte sequence,
    0 when the head byte does not start one (Go: RuneError, size 1) or the input is empty -/
def seqLen : Bytes → Nat
  | [] => 0
  | c0 :: r =>
    if c0 < 128 then 1
    else if c0 ≥ 194 && c0 ≤ 223 then
      match r with
      | c1 :: _ => if isCont c1 then 2 else 0
      | _ => 0
    else if c0 ≥ 224 && c0 ≤ 239 then
      match r with
      | c1 :: c2 :: _ =>
        let lo : UInt8 := if c0 == 224 then 160 else 128
        let hi : UInt8 := if c0 == 237 then 159 else 191
        if c1 ≥ lo && c1 ≤ hi && isCont c2 then 3 else 0
      | _ => 0
    else if c0 ≥ 240 && c0 ≤ 244 then
      match r with
      | c1 :: c2 :: c3 :: _ =>
        let lo : UInt8 := if c0 == 240 then 144 else 128
        let hi : UInt8 := if c0 == 244 then 143 else 191
        if c1 ≥ lo && c1 ≤ hi && isCont c2 && isCont c3 then 4 else 0
      | _ => 0
    else 0

/-- one decoding step of a Go string: an ASCII byte, a well-formed multi-byte sequence, or
    one byte that `DecodeRune` reports as RuneError/size 1 -/
inductive Piece where
  | ascii (c : UInt8)
  | multi (bs : Bytes)
  | bad (c : UInt8)
deriving Repr, BEq, DecidableEq

def Piece.bytes : Piece → Bytes
  | .ascii c => [c]
  | .multi bs => bs
  | .bad c => [c]

def piecesF : Nat → Bytes → List Piece
  | 0, _ => []
  | _, [] => []
  | f+1, c :: r =>
    let n := seqLen (c :: r)
    if n == 0 then .bad c :: piecesF f r
    else if n == 1 then .ascii c :: piecesF f r
    else .multi ((c :: r).take n) :: piecesF f (r.drop (n - 1))

/-- segmentation of a byte string the way a `for range` over a Go string sees it -/
def pieces (s : Bytes) : List Piece := piecesF s.length s

/-- valid UTF-8 = no `bad` piece -/
def validUtf8 (s : Bytes) : Bool := (pieces s).all fun p => match p with | .bad _ => false | _ => true

/-! ### string literals -/

def hexLow (n : UInt8) : UInt8 := if n < 10 then 48 + n else 87 + n

/-- `\u00XY` -/
def u00 (c : UInt8) : Bytes := [92, 117, 48, 48, hexLow (c / 16), hexLow (c % 16)]

/-- image of one ASCII byte, spelling of encoding/json `appendString` (encode.go:977-997);
    `html` = escapeHTML -/
def escAscii (html : Bool) (c : UInt8) : Bytes :=
  if c == 34 then [92, 34]
  else if c == 92 then [92, 92]
  else if c == 8 then [92, 98]
  else if c == 12 then [92, 102]
  else if c == 10 then [92, 110]
  else if c == 13 then [92, 114]
  else if c == 9 then [92, 116]
  else if c < 32 then u00 c
  else if html && (c == 60 || c == 62 || c == 38) then u00 c
  else [c]

def uFFFD : Bytes := [92, 117, 102, 102, 102, 100]
def u2028 : Bytes := [92, 117, 50, 48, 50, 56]
def u2029 : Bytes := [92, 117, 50, 48, 50, 57]

/-- `html`: EscapeHTML; `fix`: ValidateString (ill-formed bytes become `�` as in
    encoding/json; without the switch sonic copies them, internal/encoder/encoder.go:225-233) -/
def quotePiece (html fix : Bool) : Piece → Bytes
  | .ascii c => escAscii html c
  | .multi bs => if bs == [226, 128, 168] then u2028 else if bs == [226, 128, 169] then u2029 else bs
  | .bad c => if fix then uFFFD else [c]

/-- body of the literal (between the quotes) -/
def quoteBody (html fix : Bool) (s : Bytes) : Bytes := (pieces s).flatMap (quotePiece html fix)

/-- the complete literal -/
def quoteLit (html fix : Bool) (s : Bytes) : Bytes := 34 :: (quoteBody html fix s ++ [34])

/-! ### unquote (what a literal denotes) -/

def hexv (c : UInt8) : Option Nat := (hexVal c).map (·.toNat)

def hex4 (a b c d : UInt8) : Option Nat := do
  let x ← hexv a; let y ← hexv b; let z ← hexv c; let w ← hexv d
  pure (x * 4096 + y * 256 + z * 16 + w)

/-- UTF-8 encoding of a scalar value (surrogates must have been dealt with by the caller) -/
def utf8Enc (cp : Nat) : Bytes :=
  if cp < 128 then [UInt8.ofNat cp]
  else if cp < 2048 then [UInt8.ofNat (192 + cp / 64), UInt8.ofNat (128 + cp % 64)]
  else if cp < 65536 then [UInt8.ofNat (224 + cp / 4096), UInt8.ofNat (128 + cp / 64 % 64), UInt8.ofNat (128 + cp % 64)]
  else [UInt8.ofNat (240 + cp / 262144), UInt8.ofNat (128 + cp / 4096 % 64), UInt8.ofNat (128 + cp / 64 % 64), UInt8.ofNat (128 + cp % 64)]

def repl : Bytes := [239, 191, 189]   -- U+FFFD

def simpleEsc (e : UInt8) : Option UInt8 :=
  if e == 34 then some 34 else if e == 92 then some 92 else if e == 47 then some 47
  else if e == 98 then some 8 else if e == 102 then some 12 else if e == 110 then some 10
  else if e == 114 then some 13 else if e == 116 then some 9 else none

def flushHi (pend : Option Nat) : Bytes := if pend.isSome then repl else []

/-- decode the escapes of a raw literal body; bytes that are not part of an escape are copied
    (ill-formed UTF-8 is dealt with by `coerce`).  `none`: not a string body (bad escape, raw
    quote or control character).  `pend` = a high surrogate escape just read and still waiting
    for its partner; lone surrogates denote U+FFFD, as in Go. -/
def unqS : Option Nat → Bytes → Option Bytes
  | pend, [] => some (flushHi pend)
  | pend, c :: r =>
    if c == 92 then
      match r with
      | 117 :: a :: b :: x :: y :: rest =>
        match hex4 a b x y with
        | none => none
        | some v =>
          if v ≥ 55296 && v ≤ 56319 then (unqS (some v) rest).map (flushHi pend ++ ·)
          else if v ≥ 56320 && v ≤ 57343 then
            match pend with
            | some hi => (unqS none rest).map (utf8Enc (65536 + (hi - 55296) * 1024 + (v - 56320)) ++ ·)
            | none => (unqS none rest).map (repl ++ ·)
          else (unqS none rest).map (flushHi pend ++ utf8Enc v ++ ·)
      | e :: rest =>
        match simpleEsc e with
        | some w => (unqS none rest).map (flushHi pend ++ w :: ·)
        | none => none
      | [] => none
    else if c == 34 || c < 32 then none
    else (unqS none r).map (flushHi pend ++ c :: ·)

def unq (s : Bytes) : Option Bytes := unqS none s

/-- Go's reading of ill-formed UTF-8: every byte `DecodeRune` rejects denotes U+FFFD -/
def coerce (s : Bytes) : Bytes :=
  (pieces s).flatMap fun p => match p with | .bad _ => repl | q => q.bytes

/-- the string a literal body denotes (escapes decoded, then ill-formed bytes coerced) -/
def denote (body : Bytes) : Option Bytes := (unq body).map coerce

/-! ### decimal integers -/

def natDecAux : Nat → Nat → Bytes → Bytes
  | 0, _, acc => acc
  | f+1, n, acc =>
    let acc' := UInt8.ofNat (48 + n % 10) :: acc
    if n / 10 == 0 then acc' else natDecAux f (n / 10) acc'

/-- `strconv.AppendUint(_, n, 10)` -/
def natDec (n : Nat) : Bytes := natDecAux (n + 1) n []

/-- `strconv.AppendInt(_, i, 10)` -/
def intDec (i : Int) : Bytes := if i < 0 then 45 :: natDec i.natAbs else natDec i.natAbs

/-! ### base64 (StdEncoding, padded) -/

def b64c (n : Nat) : UInt8 :=
  if n < 26 then UInt8.ofNat (65 + n) else if n < 52 then UInt8.ofNat (97 + (n - 26))
  else if n < 62 then UInt8.ofNat (48 + (n - 52)) else if n == 62 then 43 else 47

def b64 : Bytes → Bytes
  | a :: b :: c :: r =>
    let n := a.toNat * 65536 + b.toNat * 256 + c.toNat
    b64c (n / 262144) :: b64c (n / 4096 % 64) :: b64c (n / 64 % 64) :: b64c (n % 64) :: b64 r
  | [a, b] =>
    let n := a.toNat * 65536 + b.toNat * 256
    [b64c (n / 262144), b64c (n / 4096 % 64), b64c (n / 64 % 64), 61]
  | [a] =>
    let n := a.toNat * 65536
    [b64c (n / 262144), b64c (n / 4096 % 64), 61, 61]
  | [] => []

/-- bytewise lexicographic order (Go's `strings.Compare ≤ 0`) -/
def bytesLe : Bytes → Bytes → Bool
  | [], _ => true
  | _ :: _, [] => false
  | a :: x, b :: y => if a < b then true else if b < a then false else bytesLe x y

end SonicSpec.Enc
