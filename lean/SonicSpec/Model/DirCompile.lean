/-
  Core D, deep part (2): `compile`, the JIT decoder's compiler, after
  /repo/internal/decoder/jitdec/compiler.go:572-1389.

  The Go compiler appends to one program and patches forward jumps afterwards (`pin`, `rel`); here every
  routine is a function of the position `pc` at which its code starts (= `p.pc()` on entry) and returns the
  code fragment, the jump targets being computed from the lengths of the parts.  `sp` is the static
  value-stack depth (the argument of `p.tag`).

  `_Compiler.tab` (compiler.go:574) is STATE: compileOne enters a type and removes it afterwards (:675-677),
  compilePtr enters the pointed-to type and removes it UNCONDITIONALLY (:880) - also when it did not enter it
  itself (the `_OP_recurse` branch), which un-marks a type whose compilation is still in progress further up.
  So every routine takes the table and returns the table it leaves behind.  A type can be met inside itself only
  through a NAMED type (`(lib NAME)`, `Dir.libInfo`); the body of a named struct is supplied by the parameter
  `lib` (`LibCode`), defined level by level in `libK` (each level inlines one more struct body; a body is inlined
  only while `sp < MaxInlineDepth`, and its fields are compiled at `sp + 1`, so `MaxInlineDepth + 1` levels suffice).

  The field list of an unnamed struct is `Bind.resolveFields` (internal/resolver/fields.go is a copy of
  encoding/json's `typeFields`, after which `resolveFields` is written); the disassembly correspondence compares
  the outcome (names, order, `,string`, offsets) on every generated struct type.
  `_Program.tag` (compiler.go:490: panic "type nesting too deep" when `sp >= _MaxStack`) is the predicate `tagOK`.
-/
import SonicSpec.Model.Dir
namespace SonicSpec.Dir
open SonicSpec SonicSpec.Go SonicSpec.Bind

/-- compiler.go:194 `_OP_int()` = `_OP_i64` on amd64 -/
def intOp (bits : Nat) : Instr :=
  if bits == 8 then .i8 else if bits == 16 then .i16 else if bits == 32 then .i32 else .i64

/-- compiler.go:205 `_OP_uint()`, :216 `_OP_uintptr()` -/
def uintOp (bits : Nat) : Instr :=
  if bits == 8 then .u8 else if bits == 16 then .u16 else if bits == 32 then .u32 else .u64

def intKey (bits : Nat) : KeyOp :=
  if bits == 8 then .i8 else if bits == 16 then .i16 else if bits == 32 then .i32 else .i64

def uintKey (bits : Nat) : KeyOp :=
  if bits == 8 then .u8 else if bits == 16 then .u16 else if bits == 32 then .u32 else .u64

/-! ### identity of Go types, `_Compiler.tab` -/

mutual
/-- identity of Go types as far as the universe distinguishes them -/
def typeEq : GoType → GoType → Bool
  | .bool, .bool | .f32, .f32 | .f64, .f64 | .str, .str | .num, .num | .bytes, .bytes | .raw, .raw | .any, .any => true
  | .int a, .int b | .uint a, .uint b => a == b
  | .sl a, .sl b | .ptr a, .ptr b => typeEq a b
  | .arr n a, .arr m b => n == m && typeEq a b
  | .map k a, .map l b => typeEq k l && typeEq a b
  | .st fs, .st gs => fieldsEq fs gs
  | .lib a, .lib b => a == b
  | _, _ => false
def fieldsEq : List (String × Option Bytes × GoType) → List (String × Option Bytes × GoType) → Bool
  | [], [] => true
  | (n, tg, t) :: fs, (m, ug, u) :: gs => n == m && tg == ug && typeEq t u && fieldsEq fs gs
  | _, _ => false
end

abbrev Tab := List GoType

/-- `self.tab[vt]` -/
def tabHas (tab : Tab) (T : GoType) : Bool := tab.any (typeEq T)

/-- `delete(self.tab, vt)` -/
def tabDel (tab : Tab) (T : GoType) : Tab := tab.filter fun U => !typeEq T U

/-! ### the small routines -/

/-- compiler.go:1380 checkIfSkip at `pc`: wrong first byte = record the mismatch and skip the value; `skip` is where
    `_OP_go_skip` is pinned by the caller -/
def chk (pc : Nat) (T : GoType) (c : UInt8) (skip : Nat) : Program :=
  [.checkChar0 (pc + 3) c, .dismatchErr T, .goSkip skip, .add 1]

/-- compiler.go:1316 compilePrimitive -/
def prim (pc : Nat) (op : Instr) : Program := [.isNull (pc + 2), op]

/-- compiler.go:1022 compileStringBody -/
def strBody (pc : Nat) (T : GoType) : Program := [.isNull (pc + 6)] ++ chk (pc + 1) T 34 (pc + 6) ++ [.str]

/-- compiler.go:1340 compileUnmarshalJson + :1323 compileUnmarshalEnd -/
def unmJson (pc : Nat) (T : GoType) (flags : Nat) : Program :=
  let call : Instr := if isIfaceT T then .dyn T flags else .unmarshal T flags
  if isPtrT T then [.isNull (pc + 3), call, .goto (pc + 4), .nil1] else [.isNull (pc + 2), call]

/-- compiler.go:1355 compileUnmarshalText -/
def unmText (pc : Nat) (T : GoType) (iv : Nat) : Program :=
  let mid : Program := if isIfaceT T then [.dyn T iv] else [.matchChar 34, .unmarshalText T iv]
  if isPtrT T then [.isNull (pc + 1 + mid.length + 1)] ++ mid ++ [.goto (pc + 1 + mid.length + 2), .nil1]
  else [.isNull (pc + 1 + mid.length)] ++ mid

/-- compiler.go:1372 compileUnmarshalTextPtr (`PT` is the pointer type) -/
def unmTextPtr (pc : Nat) (PT : GoType) (iv : Nat) : Program :=
  [.isNull (pc + 3), .matchChar 34, .unmarshalTextP PT iv]

/-- compiler.go:614 checkMarshaler with `exec = true`: the code emitted when the type (or the pointer to it) has an
    unmarshaler; `none` = the function returns false -/
def marshalerCode (pc : Nat) (T : GoType) (flags : Nat) : Option Program :=
  if implJ (.ptr T) then some [.lspace, .unmarshalP (.ptr T) flags]
  else if implJ T then some (.lspace :: unmJson (pc + 1) T flags)
  else if flags == 1 then none
  else if implT (.ptr T) then some (.lspace :: unmTextPtr (pc + 1) (.ptr T) flags)
  else if implT T then some (.lspace :: unmText (pc + 1) T flags)
  else none

/-- compiler.go:661 compileOne around the code of compileOps (`body tab pc`) -/
def wrapOne (tab : Tab) (pc : Nat) (T : GoType) (body : Tab → Nat → Program × Tab) : Program × Tab :=
  if tabHas tab T then ([.recurse T], tab)
  else match marshalerCode pc T 0 with
    | some c => (c, tab)
    | none =>
      let r := body (T :: tab) (pc + 1)
      (.lspace :: r.1, tabDel r.2 T)

/-- compiler.go:1032: out of line when nested too deep, the program too long or the struct too wide -/
def cutOff (co : COpts) (pc sp nfields : Nat) : Bool :=
  decide (sp ≥ co.maxInlineDepth) || decide (pc ≥ maxIlbuf) || (decide (sp > 0) && decide (nfields ≥ maxFields))

/-- only strings, floats, integers and booleans can be quoted (compiler.go:1153-1184 on `ft.Kind()`) -/
def strKind : GoType → Bool
  | .bool | .int _ | .uint _ | .f32 | .f64 | .str | .num => true
  | .lib n => (match libInfo n with
    | some { kind := .str, .. } => true
    | _ => false)
  | _ => false

/-- the opcode of a quoted scalar (compiler.go:1223-1256; a string is `_OP_unquote`, json.Number `_OP_num`) -/
def strOp : GoType → Instr
  | .bool => .bool
  | .int b => intOp b
  | .uint b => uintOp b
  | .f32 => .f32
  | .f64 => .f64
  | .num => .num
  | _ => .unquote

/-- `vt == jsonNumberType || vt.Kind() != reflect.String` (compiler.go:1259): the closing quote is matched explicitly -/
def closesQuote : GoType → Bool
  | .str | .lib _ => false
  | _ => true

/-- compiler.go:1135 compileStructFieldStr at `pc`; `whole` = compileOne of the field's type -/
def fieldStr (tab : Tab) (pc : Nat) (T : GoType) (whole : Tab → Nat → Program × Tab) : Program × Tab :=
  if implJ (.ptr T) || implJ T then
    -- :1127 compileStructFieldStrUnmarshal
    let m := (marshalerCode (pc + 2) T 1).getD []
    ([.lspace, .isNull (pc + 2 + m.length)] ++ m, tab)
  else
    let ft := match T with
      | .ptr e => e
      | t => t
    if !strKind ft then whole tab pc
    else
      let closing : Program := if closesQuote ft then [.matchChar 34] else []
      match T with
      | .ptr e =>
        -- lspace, is_null, checkIfSkip(4), is_null_quote, deref, check_char_0, op, [match_char], goto, nil_1, goto, dismatch_err, add
        let nilAt := pc + 11 + closing.length
        let fin := nilAt + 4
        ([.lspace, .isNull nilAt] ++ chk (pc + 2) .str 34 fin ++ [.isNullQuote nilAt, .deref e, .checkChar0 (nilAt + 2) 34, strOp e] ++
          closing ++ [.goto fin, .nil1, .goto fin, .dismatchErr e, .add 1], tab)
      | _ =>
        let g := pc + 9 + closing.length
        let fin := g + 3
        ([.lspace, .isNull fin] ++ chk (pc + 2) .str 34 fin ++ [.isNullQuote g, .checkChar0 (g + 1) 34, strOp T] ++
          closing ++ [.goto fin, .dismatchErr T, .add 1], tab)

/-- compiler.go:1042 compileStructBody, the 25 instructions before the field blocks; `y0 = pc + 14` -/
def structHead (pc : Nat) (T : GoType) (fields : List Field) (sw : List Nat) (dropAt : Nat) : Program :=
  [.isNull (dropAt + 1)] ++ [.checkChar0 (pc + 4) 123, .dismatchErr T, .goSkip (dropAt + 1), .add 1] ++
  [.save false, .lspace, .checkChar dropAt 125, .matchChar 34, .structField fields, .lspace, .matchChar 58, .switch sw, .objectNext,
   .lspace, .checkChar dropAt 125, .matchChar 44, .lspace, .matchChar 34, .structField fields, .lspace, .matchChar 58, .switch sw, .objectNext,
   .goto (pc + 14)]

/-- the special case for a struct without JSON-visible fields (compiler.go:1056) -/
def emptyStruct (pc : Nat) (T : GoType) : Program :=
  [.isNull (pc + 4), .checkChar0 (pc + 3) 123, .dismatchErr T, .skipEmpty (pc + 4)]

/-- code of the named type `n` (compileOps, the name already in `tab`) at position `pc`, depth `sp` -/
abbrev LibCode := Tab → String → Nat → Nat → Option (Program × Tab)

/-- compileMapOp's opcode choice (compiler.go:736-779); `none` = compileMapUnsupportedKey -/
def keyOp (K : GoType) : Option KeyOp :=
  if !isIfaceT K && implT (.ptr K) then some .utextP
  else if !isIfaceT K && implT K then some .utext
  else match K with
    | .int b => some (intKey b)
    | .uint b => some (uintKey b)
    | .f32 => some .f32
    | .f64 => some .f64
    | .str | .num => some .str
    | .lib n => (match libInfo n with
      | some { kind := .str, .. } => some .str
      | _ => none)
    | _ => none

/-- a named string type (or a pointer to one) -/
def libStr : GoType → Bool
  | .lib n => strKind (.lib n)
  | .ptr (.lib n) => strKind (.lib n)
  | _ => false

/-- the `,string` option of a field: `Bind.resolveFields` knows the unnamed kinds; a named string type is quotable as well
    (fields.go:107 looks at `ft.Kind()`) -/
def isQuoted (f : Field) (tag : Option Bytes) (t : GoType) : Bool :=
  f.quoted || (libStr t &&
    (let opts := (splitComma (tag.getD [])).2
     (splitAllCommas (opts.length + 1) opts).contains [115, 116, 114, 105, 110, 103]))

/-- compileSliceBody (compiler.go:991) at `pc`; `elem` = compileOne of the element type at depth `sp + 1` -/
def sliceBody (tab : Tab) (pc : Nat) (et : GoType) (elem : Tab → Nat → Program × Tab) : Program × Tab :=
  let c1 := elem tab (pc + 5)
  let k0 := pc + 5 + c1.1.length + 1
  let c2 := elem c1.2 (k0 + 4)
  let dropAt := k0 + 4 + c2.1.length + 2
  ([.lspace, .checkEmpty (dropAt + 1) 93, .sliceInit et, .save false, .sliceAppend et] ++ c1.1 ++
    [.load, .lspace, .checkChar dropAt 93, .matchChar 44, .sliceAppend et] ++ c2.1 ++ [.load, .goto k0, .drop], c2.2)

/-- compileSliceList (compiler.go:977) -/
def sliceList (tab : Tab) (pc : Nat) (T et : GoType) (elem : Tab → Nat → Program × Tab) : Program × Tab :=
  let b := sliceBody tab (pc + 5) et elem
  let nilAt := pc + 5 + b.1.length + 1
  ([.isNull nilAt] ++ chk (pc + 1) T 91 (nilAt + 1) ++ b.1 ++ [.goto (nilAt + 1), .nil3], b.2)

/-- compileSliceBin (compiler.go:947): `[]byte` takes a base64 string or an array of numbers -/
def sliceBin (tab : Tab) (pc : Nat) (T et : GoType) (elem : Tab → Nat → Program × Tab) : Program × Tab :=
  let b := sliceBody tab (pc + 9) et elem
  let nilAt := pc + 9 + b.1.length + 1
  let fin := nilAt + 3
  ([.isNull nilAt, .checkChar (pc + 9) 91] ++ chk (pc + 2) T 34 fin ++ [.checkChar (nilAt + 2) 34, .bin, .goto fin] ++ b.1 ++
    [.goto fin, .nil3, .goto fin, .emptyBytes], b.2)

/-- the element codes of compileArray's loop (compiler.go:908-916), each with the position it starts at -/
def arrCodes (elem : Tab → Nat → Program × Tab) : Nat → Tab → Nat → List Program × Tab
  | 0, tab, _ => ([], tab)
  | k + 1, tab, pc =>
    let c := elem tab pc
    let r := arrCodes elem k c.2 (pc + c.1.length + 5)
    (c.1 :: r.1, r.2)

def arrJoin (size clearAt : Nat) : List Program → Nat → Program
  | [], _ => []
  | c :: r, i => c ++ [.load, .index [i] (i * size), .lspace, .checkChar clearAt 93, .matchChar 44] ++ arrJoin size clearAt r (i + 1)

/-- compileArray (compiler.go:896) -/
def arrCode (tab : Tab) (pc : Nat) (n : Nat) (t : GoType) (elem : Tab → Nat → Program × Tab) : Program × Tab :=
  let cs := arrCodes elem n tab (pc + 8)
  let len := (cs.1.map fun c => c.length + 5).sum
  let clearAt := pc + 8 + len + 2
  let clear : Instr := if hasPtr t then .arrayClearP (n * tsize t) n t else .arrayClear (n * tsize t) n t
  ([.isNull (clearAt + 2)] ++ chk (pc + 1) (.arr n t) 91 (clearAt + 2) ++ [.save (n != 0), .lspace, .checkChar clearAt 93] ++
    arrJoin (tsize t) clearAt cs.1 1 ++ [.arraySkip, .goto (clearAt + 1), clear, .drop], cs.2)

/-- compileMapOp (compiler.go:792); `elem` = compileOne of the element type at depth `sp + 2` -/
def mapCode (tab : Tab) (pc : Nat) (T : GoType) (op : KeyOp) (elem : Tab → Nat → Program × Tab) : Program × Tab :=
  let c1 := elem tab (pc + 14)
  let load1 := pc + 14 + c1.1.length
  let c2 := elem c1.2 (load1 + 9)
  let load2 := load1 + 9 + c2.1.length
  let dropAt := load2 + 2
  ([.isNull (dropAt + 2)] ++ chk (pc + 1) T 123 (dropAt + 3) ++
    [.save false, .mapInit, .save false, .lspace, .checkChar dropAt 125, .matchChar 34, .mapKey op T load1, .lspace, .matchChar 58] ++
    c1.1 ++ [.load, .lspace, .checkChar dropAt 125, .matchChar 44, .lspace, .matchChar 34, .mapKey op T load2, .lspace, .matchChar 58] ++
    c2.1 ++ [.load, .goto (load1 + 1), .drop2, .goto (dropAt + 3), .nil1], c2.2)

/-- the tail of compilePtr's walk for a type `T` reached through `_OP_deref` (compiler.go:863-880): not `down` = plain
    compileOps; `down` = the dereference, then `_OP_recurse` if the type is being compiled, else its code in place; the
    type is removed from the table either way -/
def fin (down : Bool) (tab : Tab) (pc : Nat) (T : GoType) (body : Tab → Nat → Program × Tab) : Program × Tab :=
  if !down then body tab pc
  else if tabHas tab T then ([.deref T, .recurse T], tabDel tab T)
  else
    let r := body (T :: tab) (pc + 2)
    (.deref T :: .lspace :: r.1, tabDel r.2 T)

/-- the jump table of `_OP_switch`: entry `i` = the block of the `i`-th field of the resolved list -/
def swOf (rs : List Field) (starts : List (Nat × Nat)) : List Nat :=
  rs.map fun f => ((starts.find? fun p => p.1 == f.idx).map (·.2)).getD 0

/-- one field block of compileStructBody (compiler.go:1097-1118): the offset path, the value, `load`, back to `y0` -/
def fieldBlock (path : Program) (val : Program) (y0 : Nat) : Program := path ++ val ++ [.load, .goto y0]

/-- compilePtr for a pointer KIND type `self` whose element is the named struct `e` and on which `checkMarshaler` finds nothing:
    the walk reaches `e` and compiles it with compileOps - in place or, beyond the inline limits, as `_OP_recurse e`, whose own
    program starts with compileOne's `checkMarshaler` (and so calls `(*e).UnmarshalJSON` if there is one) -/
def nptrCode (lib : LibCode) (down : Bool) (tab : Tab) (pc sp : Nat) (self : GoType) (e : String) : Program × Tab :=
  let chain := fin true tab (pc + 1) (.lib e) fun tb p => (lib tb e p sp).getD ([.isNull (p + 2), .unsupported (.lib e)], tb)
  if down then (.deref self :: chain.1, chain.2)
  else
    let nilAt := pc + 1 + chain.1.length + 1
    ([.isNull nilAt] ++ chain.1 ++ [.goto (nilAt + 1), .nil1], chain.2)

/-- the type of a struct FIELD as `resolver.resolveFields` reports it (resolver.go:150-171): a pointer is taken apart and put
    together again with `reflect.PtrTo`, so a field of a NAMED pointer type `type T *E` is compiled as the unnamed `*E` -
    with the methods of `*E`.  `dflt` = compileOne of the declared type. -/
def fieldWhole (lib : LibCode) (sp : Nat) (t : GoType) (dflt : Tab → Nat → Program × Tab) : Tab → Nat → Program × Tab :=
  match t with
  | .lib n =>
    (match nptrElem n with
     | some e => fun tb p => wrapOne tb p (.ptr (.lib e)) fun tb' p' => nptrCode lib false tb' p' (sp + 1) (.ptr (.lib e)) e
     | none => dflt)
  | _ => dflt

mutual
/-- compileOps (compiler.go:680) for a type whose code starts at `pc`; `down` = the type was reached by compilePtr's walk -/
def ops (co : COpts) (lib : LibCode) (down : Bool) (tab : Tab) (pc sp : Nat) : GoType → Program × Tab
  | .bool => fin down tab pc .bool fun tb p => (prim p .bool, tb)
  | .int b => fin down tab pc (.int b) fun tb p => (prim p (intOp b), tb)
  | .uint b => fin down tab pc (.uint b) fun tb p => (prim p (uintOp b), tb)
  | .f32 => fin down tab pc .f32 fun tb p => (prim p .f32, tb)
  | .f64 => fin down tab pc .f64 fun tb p => (prim p .f64, tb)
  | .num => fin down tab pc .num fun tb p => (prim p .num, tb)                               -- :1015 json.Number
  | .str => fin down tab pc .str fun tb p => (strBody p .str, tb)
  | .any => fin down tab pc .any fun tb p => ([.isNull (p + 3), .any, .goto (p + 4), .nil2], tb)   -- :1297 compileInterface
  | .lib n =>
      match nptrElem n with
      | some e => nptrCode lib down tab pc sp (.lib n) e     -- a named pointer type is of pointer KIND: compilePtr; it has no methods
      | none => fin down tab pc (.lib n) fun tb p => (lib tb n p sp).getD ([.isNull (p + 2), .unsupported (.lib n)], tb)
  | .bytes => fin down tab pc .bytes fun tb p =>
      sliceBin tb p .bytes (.uint 8) fun tb' p' => wrapOne tb' p' (.uint 8) fun tb'' p'' => (prim p'' .u8, tb'')
  | .raw => fin down tab pc .raw fun tb p =>
      sliceBin tb p .raw (.uint 8) fun tb' p' => wrapOne tb' p' (.uint 8) fun tb'' p'' => (prim p'' .u8, tb'')
  | .sl t => fin down tab pc (.sl t) fun tb p =>
      let elem := fun tb' p' => wrapOne tb' p' t fun tb'' p'' => ops co lib false tb'' p'' (sp + 1) t
      match t with
      | .uint 8 => sliceBin tb p (.sl t) t elem
      | _ => sliceList tb p (.sl t) t elem
  | .arr n t => fin down tab pc (.arr n t) fun tb p =>
      arrCode tb p n t fun tb' p' => wrapOne tb' p' t fun tb'' p'' => ops co lib false tb'' p'' (sp + 1) t
  | .map k t => fin down tab pc (.map k t) fun tb p =>
      match keyOp k with
      | none => ([.isNull (p + 3), .dismatchErr (.map k t), .goSkip (p + 4), .nil1], tb)      -- :781 compileMapUnsupportedKey
      | some op => mapCode tb p (.map k t) op fun tb' p' => wrapOne tb' p' t fun tb'' p'' => ops co lib false tb'' p'' (sp + 2) t
  | .st fs => fin down tab pc (.st fs) fun tb p =>
      -- :1031 compileStruct
      if cutOff co p sp fs.length then ([.recurse (.st fs)], tb)
      else
        let rs := resolveFields fs
        if rs.isEmpty then (emptyStruct p (.st fs), tb)
        else
          let r := fieldBlocks co lib tb (p + 25) (p + 14) sp rs 0 fs (offsets fs 0)
          let dropAt := p + 25 + r.2.1.length
          (structHead p (.st fs) rs (swOf rs r.1) dropAt ++ r.2.1 ++ [.drop], r.2.2)
  | .ptr t =>
      -- :841 compilePtr (not `down`), one more turn of its loop (`down`)
      let chain : Program × Tab :=
        match marshalerCode (pc + 1) (.ptr t) 0 with
        | some m => (m, tab)
        | none => ops co lib true tab (pc + 1) sp t
      if down then (.deref (.ptr t) :: chain.1, chain.2)
      else
        let nilAt := pc + 1 + chain.1.length + 1
        ([.isNull nilAt] ++ chain.1 ++ [.goto (nilAt + 1), .nil1], chain.2)      -- :884 compilePtrEnd
/-- the loop of compileStructBody (compiler.go:1097) over the declared fields (`i` = index of the next one; a field is
    JSON-visible when the resolved list `rs` has an entry for its index): for each visible one its index and the position of
    its block (`sw[i] = p.pc()`), the blocks, the table -/
def fieldBlocks (co : COpts) (lib : LibCode) (tab : Tab) (pc y0 sp : Nat) (rs : List Field) :
    Nat → List (String × Option Bytes × GoType) → List Nat → List (Nat × Nat) × Program × Tab
  | i, (_, tag, t) :: fs, off :: offs =>
    match rs.find? fun f => f.idx == i with
    | none => fieldBlocks co lib tab pc y0 sp rs (i + 1) fs offs
    | some f =>
      let whole := fieldWhole lib sp t fun tb p => wrapOne tb p t fun tb' p' => ops co lib false tb' p' (sp + 1) t
      let v := if isQuoted f tag t then fieldStr tab (pc + 1) t whole else whole tab (pc + 1)
      let blk := fieldBlock [.index [i] off] v.1 y0
      let r := fieldBlocks co lib v.2 (pc + blk.length) y0 sp rs (i + 1) fs offs
      ((i, pc) :: r.1, blk ++ r.2.1, r.2.2)
  | _, _, _ => ([], [], tab)
end

/-- compileOne (compiler.go:661) -/
def one (co : COpts) (lib : LibCode) (tab : Tab) (pc sp : Nat) (T : GoType) : Program × Tab :=
  wrapOne tab pc T fun tb p => ops co lib false tb p sp T

/-- the field blocks of a named struct: the resolved list comes from the library table, the field types are compiled
    with the next level of `lib` -/
def libBlocks (co : COpts) (lib : LibCode) (y0 sp : Nat) (i : Nat := 0) : List LField → Tab → Nat → List Nat × Program × Tab
  | [], tab, _ => ([], [], tab)
  | f :: fs, tab, pc =>
    -- the value path of the machine model (`sel`) is known for a field of the struct itself: its position
    let path : Program := match f.path with
      | [(o, none)] => [Instr.index [i] o]
      | ps => ps.flatMap fun (o, d) =>
        match d with
        | none => [Instr.index [] o]
        | some dt => [Instr.index [] o, Instr.deref dt]
    let whole := fun tb p => one co lib tb p (sp + 1) f.ty
    let v := if f.quoted then fieldStr tab (pc + path.length) f.ty whole else whole tab (pc + path.length)
    let blk := fieldBlock path v.1 y0
    let r := libBlocks co lib y0 sp (i + 1) fs v.2 (pc + blk.length)
    (pc :: r.1, blk ++ r.2.1, r.2.2)

def libFields (fs : List LField) : List Field :=
  fs.zipIdx.map fun (f, i) => { name := ascii f.name, idx := i, ty := f.ty, quoted := f.quoted, tagged := true }

/-- compileOps of a named type whose name has just been put into `tab`, with `k` levels of inlining of further named
    struct bodies left -/
def libK (co : COpts) : Nat → LibCode
  | 0 => fun _ _ _ _ => none
  | k + 1 => fun tab n pc sp =>
    (libInfo n).map fun info =>
      match info.kind with
      | .str => (strBody pc (.lib n), tab)
      | .iface => ([.isNull (pc + 3), .dyn (.lib n) 0, .goto (pc + 4), .nil2], tab)
      | .nptr _ => ([.isNull (pc + 2), .unsupported (.lib n)], tab)          -- not reached: `ops` compiles a named pointer itself
      | .st nfields fields =>
        if cutOff co pc sp nfields then ([Instr.recurse (.lib n)], tab)
        else if fields.isEmpty then (emptyStruct pc (.lib n), tab)
        else
          let r := libBlocks co (libK co k) (pc + 14) sp 0 fields tab (pc + 25)
          let dropAt := pc + 25 + r.2.1.length
          (structHead pc (.lib n) (libFields fields) r.1 dropAt ++ r.2.1 ++ [Instr.drop], r.2.2)

/-- `_Compiler.compile` (compiler.go:604): `compileOne(&ret, 0, vt)` on an empty program with an empty table -/
def compile (co : COpts) (T : GoType) : Program := (one co (libK co (co.maxInlineDepth + 2)) [] 0 0 T).1

mutual
/-- the `p.tag(sp)` calls (compileMapOp `sp + 1`, compileArray, compileSliceList, compileStructBody) all pass -/
def tagOK (co : COpts) (sp : Nat) : GoType → Bool
  | .sl t => (match t with
    | .uint 8 => true
    | _ => sp < maxStack && tagOK co (sp + 1) t)
  | .arr _ t => sp < maxStack && tagOK co (sp + 1) t
  | .ptr t => tagOK co sp t
  | .map k t => (keyOp k).isNone || (sp + 1 < maxStack && tagOK co (sp + 2) t)
  | .st fs => cutOff co 0 sp fs.length || (sp < maxStack && tagOKF co (sp + 1) fs)
  | _ => true
def tagOKF (co : COpts) (sp : Nat) : List (String × Option Bytes × GoType) → Bool
  | [] => true
  | (_, _, t) :: r => tagOK co sp t && tagOKF co sp r
end

mutual
/-- every named type inside is one of the library's -/
def libsKnown : GoType → Bool
  | .lib n => (libInfo n).isSome
  | .sl t | .arr _ t | .ptr t => libsKnown t
  | .map k t => libsKnown k && libsKnown t
  | .st fs => libsKnownF fs
  | _ => true
def libsKnownF : List (String × Option Bytes × GoType) → Bool
  | [] => true
  | (_, _, t) :: r => libsKnown t && libsKnownF r
end

end SonicSpec.Dir
