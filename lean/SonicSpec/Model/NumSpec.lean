/-
  Core C (numbers): the specification relations the C19 theorems are stated with.
  Pure propositions over `Nat`/`Int` (no reals); nothing here is executed by the driver.
-/
import SonicSpec.Model.Num
namespace SonicSpec.Num

/-- `q * 2^t` (in units of the smallest subnormal, `t = 0` = subnormal range / first binade) is the
    IEEE-754 round-to-nearest-even image of the positive rational `N / D` for precision `p`:
      * `u` is the exponent of the binade that contains `N / D` itself
        (`2^(p-1) ≤ N / (D * 2^u) < 2^p`, only the upper bound when `u = 0`);
      * `q0` is an integer nearest to `N / (D * 2^u)`: `2 * |N - q0 * D * 2^u| ≤ D * 2^u`
        (absolute value written as two truncated subtractions), and even when the distance is exactly
        half a unit;
      * `(q, t)` is `(q0, u)`, renormalised when rounding carried into the next binade. -/
def IsRNE (p N D q t : Nat) : Prop :=
  ∃ q0 u,
    N < 2 ^ p * (D * 2 ^ u) ∧ (0 < u → 2 ^ (p - 1) * (D * 2 ^ u) ≤ N) ∧
    2 * (N - q0 * (D * 2 ^ u)) ≤ D * 2 ^ u ∧ 2 * (q0 * (D * 2 ^ u) - N) ≤ D * 2 ^ u ∧
    ((2 * (N - q0 * (D * 2 ^ u)) = D * 2 ^ u ∨ 2 * (q0 * (D * 2 ^ u) - N) = D * 2 ^ u) → q0 % 2 = 0) ∧
    ((q = q0 ∧ t = u ∧ q0 < 2 ^ p) ∨ (q0 = 2 ^ p ∧ q = 2 ^ (p - 1) ∧ t = u + 1))

/-- canonical significand / exponent pair: normal numbers have the top bit set, subnormals only at `t = 0` -/
def Canonical (p q t : Nat) : Prop := q < 2 ^ p ∧ (0 < t → 2 ^ (p - 1) ≤ q)

/-- decimal digit string -/
def AllDigits (ds : Bytes) : Prop := ∀ c ∈ ds, isDigit c = true

/-- value of a digit string, most significant first -/
def digitsVal (ds : Bytes) : Nat := ds.foldl (fun acc c => acc * 10 + digitVal c) 0

/-- integer literal of RFC 8259 without fraction and exponent: `-? (0 | [1-9][0-9]*)`, with its value.
    This is what `strconv.ParseInt(s, 10, w)` accepts among JSON literals, hence what encoding/json
    stores into integer destinations. -/
def IsIntLit (lit : Bytes) (n : Int) : Prop :=
  ∃ (neg : Bool) (ds : Bytes),
    lit = (if neg then [45] else []) ++ ds ∧ ds ≠ [] ∧ AllDigits ds ∧
    (ds.head? = some 48 → ds.length = 1) ∧
    n = (if neg then - (digitsVal ds : Int) else (digitsVal ds : Int))

end SonicSpec.Num
