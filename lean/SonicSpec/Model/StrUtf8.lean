/-
  Core B (strings) - UTF-8 part.  Executable model, core Lean only.

  Sources transliterated:
    native/utf8.h:41   valid_utf8_4byte            -> `seqLen`
    native/utf8.h:135  validate_utf8_with_errors   -> `correctWith` (positions recorded, one byte skipped)
    native/utf8.h:180  validate_utf8_errors        -> `validate`
    utf8/utf8.go:30    CorrectWith (position list of at most MAX_RECURSE entries per native call)
                                                   -> `correctChunked`
    native/unquote.c:102-116,178-181 (encoder of a code point) -> `encodeScalar`
-/
import SonicSpec.Model.Hex
namespace SonicSpec.Str

/-- Unicode scalar value: a code point that is not a surrogate -/
def isScalar (c : Nat) : Bool := c < 55296 || (57344 ≤ c && c < 1114112)

/-- UTF-8 encoding of a code point below 0x110000 (unquote.c:102-116 and 178-181; `|` of disjoint
    bit fields written as `+`) -/
def encodeScalar (c : Nat) : Bytes :=
  if c < 128 then [UInt8.ofNat c]
  else if c < 2048 then [UInt8.ofNat (192 + c / 64), UInt8.ofNat (128 + c % 64)]
  else if c < 65536 then
    [UInt8.ofNat (224 + c / 4096), UInt8.ofNat (128 + c / 64 % 64), UInt8.ofNat (128 + c % 64)]
  else
    [UInt8.ofNat (240 + c / 262144), UInt8.ofNat (128 + c / 4096 % 64),
     UInt8.ofNat (128 + c / 64 % 64), UInt8.ofNat (128 + c % 64)]

def encodeAll (cps : List Nat) : Bytes := cps.flatMap encodeScalar

/-- continuation byte: `(b & 0xC0) == 0x80` -/
def isCont (b : UInt8) : Bool := 128 ≤ b && b < 192

/-- utf8.h:41 `valid_utf8_4byte` applied to the next (up to) four bytes, the missing ones being the zero
    padding of `memcpy_p4` (utf8.h:162): length of the well-formed sequence that starts here, 0 if none.
    The ASCII test of the callers (utf8.h:140,157) is folded in as length 1.
    The masks of the C code, byte by byte:
      2: (b0 & E0)==C0, (b1 & C0)==80, (b0 & 1E)!=0                         i.e. b0 in C2..DF
      3: (b0 & F0)==E0, conts, (b0&0F, b1&20) != (0,0) and != (0D,20)       i.e. not E0 80..9F, not ED A0..BF
      4: (b0 & F8)==F0, conts, (b0&07, b1&30) != (0,0),
         (b0&04)==0 or ((b0&03)==0 and (b1&30)==0)                          i.e. F0 90.., F1..F3, F4 80..8F -/
def seqLen : Bytes → Nat
  | [] => 0
  | b0 :: t =>
    if b0 < 128 then 1
    else if 194 ≤ b0 && b0 < 224 then
      match t with
      | b1 :: _ => if isCont b1 then 2 else 0
      | _ => 0
    else if 224 ≤ b0 && b0 < 240 then
      match t with
      | b1 :: b2 :: _ =>
        if isCont b1 && isCont b2 && !(b0 == 224 && b1 < 160) && !(b0 == 237 && 160 ≤ b1) then 3 else 0
      | _ => 0
    else if 240 ≤ b0 && b0 < 245 then
      match t with
      | b1 :: b2 :: b3 :: _ =>
        if isCont b1 && isCont b2 && isCont b3 && !(b0 == 240 && b1 < 144) && !(b0 == 244 && 144 ≤ b1) then 4 else 0
      | _ => 0
    else 0

theorem seqLen_le (s : Bytes) : seqLen s ≤ s.length := by
  unfold seqLen
  repeat' split
  all_goals simp

/-- utf8.h:180 `validate_utf8_errors` == 0, which is what `utf8.Validate/ValidateString` report
    (the vectorised `validate_utf8_fast` falls back to it / must agree with it) -/
def validate (s : Bytes) : Bool :=
  match s with
  | [] => true
  | b :: t =>
    if seqLen (b :: t) == 0 then false else validate ((b :: t).drop (seqLen (b :: t)))
termination_by s.length
decreasing_by
  rename_i h
  have : seqLen (b :: t) ≠ 0 := by simpa using h
  have := seqLen_le (b :: t)
  simp only [List.length_drop, List.length_cons] at *
  omega

/-- utf8.h:135 + utf8.go:30: every byte at which no well-formed sequence starts is replaced by `repl`
    (one byte is skipped, utf8.h:154), well-formed sequences are copied -/
def correctWith (repl : Bytes) (s : Bytes) : Bytes :=
  match s with
  | [] => []
  | b :: t =>
    if seqLen (b :: t) == 0 then repl ++ correctWith repl t
    else (b :: t).take (seqLen (b :: t)) ++ correctWith repl ((b :: t).drop (seqLen (b :: t)))
termination_by s.length
decreasing_by
  · simp
  · rename_i h
    have : seqLen (b :: t) ≠ 0 := by simpa using h
    have := seqLen_le (b :: t)
    simp only [List.length_drop, List.length_cons] at *
    omega

/-- One native call `validate_utf8` (utf8.h:135) with room for `k` more positions: returns the output
    produced for the part consumed and the unconsumed rest (the call stops *at* the error that does
    not fit, utf8.h:149-153). -/
def correctCall (repl : Bytes) : Nat → Bytes → Bytes × Bytes
  | _, [] => ([], [])
  | k, b :: t =>
    if seqLen (b :: t) == 0 then
      match k with
      | 0 => ([], b :: t)
      | k + 1 =>
        match correctCall repl k t with
        | (o, r) => (repl ++ o, r)
    else
      match correctCall repl k ((b :: t).drop (seqLen (b :: t))) with
      | (o, r) => ((b :: t).take (seqLen (b :: t)) ++ o, r)
termination_by _ s => s.length
decreasing_by
  · simp
  · rename_i h
    have : seqLen (b :: t) ≠ 0 := by simpa using h
    have := seqLen_le (b :: t)
    simp only [List.length_drop, List.length_cons] at *
    omega

theorem correctCall_rest_le (repl : Bytes) (k : Nat) (s : Bytes) :
    (correctCall repl k s).2.length ≤ s.length := by
  fun_induction correctCall repl k s with
  | case1 => simp
  | case2 => simp
  | case3 b t h k o r heq ih => rw [heq] at ih; simp only [List.length_cons] at *; omega
  | case4 k b t h o r heq ih =>
    have := seqLen_le (b :: t)
    rw [heq] at ih
    simp only [List.length_drop, List.length_cons] at *
    omega

/-- utf8.go:30 `CorrectWith`: the native call is repeated with an emptied position list (`m.Sp = 0`)
    until the input is consumed; `k` = capacity of the list (MAX_RECURSE = 4096), must be positive.
    `fuel` bounds the number of calls (every call with k > 0 consumes at least one byte). -/
def correctChunked (repl : Bytes) (k : Nat) : Nat → Bytes → Bytes
  | _, [] => []
  | 0, _ => []
  | fuel + 1, s =>
    match correctCall repl k s with
    | (o, r) => o ++ correctChunked repl k fuel r

/-- byte-wise decoder used by the reference side of the statement: the scalar value of the well-formed
    sequence at the head (meaningful when `seqLen s ≠ 0`) -/
def decodeHead (s : Bytes) : Nat :=
  match s with
  | [] => 0
  | b0 :: t =>
    if b0 < 128 then b0.toNat
    else if b0 < 224 then
      match t with
      | b1 :: _ => (b0.toNat - 192) * 64 + (b1.toNat - 128)
      | _ => 0
    else if b0 < 240 then
      match t with
      | b1 :: b2 :: _ => (b0.toNat - 224) * 4096 + (b1.toNat - 128) * 64 + (b2.toNat - 128)
      | _ => 0
    else
      match t with
      | b1 :: b2 :: b3 :: _ =>
        (b0.toNat - 240) * 262144 + (b1.toNat - 128) * 4096 + (b2.toNat - 128) * 64 + (b3.toNat - 128)
      | _ => 0

/-- decode a whole string; `none` when it is not well-formed -/
def decodeAll (s : Bytes) : Option (List Nat) :=
  match s with
  | [] => some []
  | b :: t =>
    if seqLen (b :: t) == 0 then none
    else (decodeAll ((b :: t).drop (seqLen (b :: t)))).map (decodeHead (b :: t) :: ·)
termination_by s.length
decreasing_by
  rename_i h
  have : seqLen (b :: t) ≠ 0 := by simpa using h
  have := seqLen_le (b :: t)
  simp only [List.length_drop, List.length_cons] at *
  omega

end SonicSpec.Str
