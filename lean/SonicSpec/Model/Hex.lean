/-
  Hex / line-protocol helpers shared by every driver module (core Lean only).
-/
namespace SonicSpec

abbrev Bytes := List UInt8

def hexVal (c : UInt8) : Option UInt8 :=
  if c ≥ 48 && c ≤ 57 then some (c - 48)
  else if c ≥ 97 && c ≤ 102 then some (c - 87)
  else if c ≥ 65 && c ≤ 70 then some (c - 55)
  else none

/-- decode a hex string; `none` on odd length or a non-hex digit -/
def unhex (s : String) : Option Bytes :=
  let rec go : List UInt8 → List UInt8 → Option (List UInt8)
    | [], acc => some acc.reverse
    | [_], _ => none
    | a :: b :: r, acc =>
      match hexVal a, hexVal b with
      | some x, some y => go r ((x * 16 + y) :: acc)
      | _, _ => none
  go s.toUTF8.toList []

def hexDigit (n : UInt8) : Char :=
  if n < 10 then Char.ofNat (48 + n.toNat) else Char.ofNat (87 + n.toNat)

def hex (b : Bytes) : String :=
  String.ofList (b.foldr (fun x acc => hexDigit (x / 16) :: hexDigit (x % 16) :: acc) [])

/-- "-" stands for the empty byte string on the wire (an empty tab field is easy to lose) -/
def unhexArg (s : String) : Option Bytes :=
  if s == "-" then some [] else unhex s

def hexArg (b : Bytes) : String :=
  if b.isEmpty then "-" else hex b

end SonicSpec
