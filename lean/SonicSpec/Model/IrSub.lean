/-
  Core E (part 4): the part of the universe the compiler-correctness theorem of Props/C12 covers,
  as decidable predicates (the driver reports for every case whether it lies inside).

    `Sub T`        bool, integers, floats, string, json.Number, []byte, interface{}, slices, arrays, pointers, maps with
                   string / integer keys, structs whose field list the specification resolves and that do not put
                   `,string` on a string field (known deviation C03-string-opt-inner-literal), the named recursive
                   struct types `Rec` and `Tree`
    `Conf co T v`  `v` inhabits `T` (the dynamic type of every interface value is again in `Sub`), no `omitempty`
                   float field holds -0.0 (known deviation C03-omitempty-negative-zero: the machine tests the bit
                   pattern), and under the compile option EncOnlyOmitNull every `omitempty` field is nil or not empty
                   (the option changes the meaning of `omitempty`; on such values it does not show)
    `needV T v`    the number of machine states the VALUE needs (1 per non-nil pointer / non-nil slice / array /
                   struct level, 2 per non-empty map level, the dynamic value of an interface counted through)
-/
import SonicSpec.Model.IrExec
namespace SonicSpec.Ir
open SonicSpec SonicSpec.Go SonicSpec.Enc

def strLike : GoType → Bool
  | .str => true
  | .ptr .str => true
  | _ => false

def subK : List (Option Field) → Bool
  | [] => true
  | none :: r => subK r
  | some f :: r => !(f.quoted && strLike f.typ) && subK r

/-- map key kinds on which the machine and the specification agree -/
def keySub : GoType → Bool
  | .str | .int _ | .uint _ => true
  | _ => false

/-- callback types whose method is found whatever the addressability (value receivers) -/
def cbValue (n : String) : Bool := match cbKind n with | some (_, vr) => vr | none => false

/-- `*n` for a callback type `n`: the pointer type has every method -/
def cbPtr : GoType → Bool
  | .lib n => (cbKind n).isSome
  | _ => false

/-- the callback's text is JSON (so that neither validation nor NoQuoteTextMarshaler can refuse it) -/
def cbConf (n : String) (v : GoVal) : Bool :=
  match callbackText n v with
  | some m => (Json.parseDoc m).isSome
  | none => false

mutual
def Sub : GoType → Bool
  | .bool | .int _ | .uint _ | .f32 | .f64 | .str | .num | .bytes | .any => true
  | .sl t | .arr _ t => Sub t
  | .ptr t => Sub t || cbPtr t
  | .map k t => keySub k && Sub t
  | .st fs => (match keepList fs with | some ks => subK ks | none => false) && SubF fs
  | .lib n => libNames.contains n || cbValue n
  | _ => false
def SubF : List (String × Option Bytes × GoType) → Bool
  | [] => true
  | (_, _, t) :: r => Sub t && SubF r
end

def negZero : GoVal → Bool
  | .f64 b => b == 0x8000000000000000
  | .f32 b => b == 0x80000000
  | _ => false

def isNilV : GoVal → Bool
  | .nil => true
  | _ => false

/-- the field's `omitempty` decision does not depend on EncOnlyOmitNull: where the option compiles a nil test the value
    is nil or not empty, where it compiles no test the value is not empty -/
def omitNullOK (co : COpts) (f : Field) (t : GoType) (v : GoVal) : Bool :=
  !co.encOnlyOmitNull || !f.omitEmpty || skipField f t || (isEmptyV t v == ((nilTest t).isSome && isNilV v))

mutual
def Conf (co : COpts) : GoType → GoVal → Bool
  | .bool, .bool _ => true
  | .int _, .int _ => true
  | .uint _, .uint _ => true
  | .f32, .f32 _ => true
  | .f64, .f64 _ => true
  | .str, .str _ => true
  | .num, .num _ => true
  | .bytes, .nil => true
  | .bytes, .bytes _ => true
  | .any, .nil => true
  | .any, .any T w => Sub T && Conf co T w
  | .sl _, .nil => true
  | .sl t, .sl xs => ConfL co t xs
  | .arr n t, .arr xs => xs.length == n && ConfL co t xs
  | .ptr _, .nil => true
  | .ptr t, .ptr v => Conf co t v
  | .map _ _, .nil => true
  | .map k t, .map kvs => ConfM co k t kvs
  | .st fs, .st vs =>
    match keepList fs with
    | some ks => ConfF co fs ks vs
    | none => false
  | .lib n, .st vs =>
    match libStruct n with
    | some fs =>
      match keepList fs with
      | some ks => ConfF co fs ks vs
      | none => false
    | none => cbConf n (.st vs)
  | .lib n, .lib m => cbConf n (.lib m)
  | _, _ => false
def ConfL (co : COpts) (t : GoType) : List GoVal → Bool
  | [] => true
  | v :: r => Conf co t v && ConfL co t r
def ConfM (co : COpts) (k t : GoType) : List (GoVal × GoVal) → Bool
  | [] => true
  | (a, b) :: r => Conf co k a && Conf co t b && ConfM co k t r
def ConfF (co : COpts) : List (String × Option Bytes × GoType) → List (Option Field) → List GoVal → Bool
  | (_, _, t) :: fs, k :: ks, v :: vs =>
    Conf co t v && (match k with | some f => !(f.omitEmpty && negZero v) && omitNullOK co f t v | none => true) && ConfF co fs ks vs
  | [], [], [] => true
  | _, _, _ => false
end

mutual
/-- the state-stack need of a value -/
def needV : GoType → GoVal → Nat
  | .any, .any T w => needV T w
  | .sl t, .sl xs => if isU8 t then 0 else needL t xs + 1
  | .arr _ t, .arr xs => needL t xs + 1
  | .ptr t, .ptr v => needV t v + 1
  | .map _ t, .map kvs => if kvs.isEmpty then 0 else needM t kvs + 2
  | .st fs, .st vs => needF fs vs + 1
  | .lib n, .st vs =>
    match libStruct n with
    | some fs => needF fs vs + 1
    | none => 0
  | _, _ => 0
def needL (t : GoType) : List GoVal → Nat
  | [] => 0
  | v :: r => max (needV t v) (needL t r)
def needM (t : GoType) : List (GoVal × GoVal) → Nat
  | [] => 0
  | (_, b) :: r => max (needV t b) (needM t r)
def needF : List (String × Option Bytes × GoType) → List GoVal → Nat
  | (_, _, t) :: fs, v :: vs => max (needV t v) (needF fs vs)
  | _, _ => 0
end

end SonicSpec.Ir
