/-
  Core E (part 4): the part of the universe the compiler-correctness theorem of Props/C12 covers,
  as decidable predicates (the driver reports for every case whether it lies inside).

    `Sub T`     bool, integers, floats, string, json.Number, []byte, slices, arrays, pointers, maps with string
                keys, structs whose field list the specification resolves and that do not put `,string` on a
                string field (known deviation C03-string-opt-inner-literal)
    `Conf T v`  `v` inhabits `T`, and no `omitempty` float field holds -0.0 (known deviation
                C03-omitempty-negative-zero: the machine tests the bit pattern)
    `need T`    the number of machine states a value of `T` can need (1 per pointer / slice / array / struct
                level, 2 per map level)
-/
import SonicSpec.Model.IrExec
namespace SonicSpec.Ir
open SonicSpec SonicSpec.Go SonicSpec.Enc

def strLike : GoType → Bool
  | .str => true
  | .ptr .str => true
  | _ => false

def subK : List (Option Field) → Bool
  | [] => true
  | none :: r => subK r
  | some f :: r => !(f.quoted && strLike f.typ) && subK r

mutual
def Sub : GoType → Bool
  | .bool | .int _ | .uint _ | .f32 | .f64 | .str | .num | .bytes => true
  | .sl t | .arr _ t | .ptr t => Sub t
  | .map k t => isStrT k && Sub t
  | .st fs => (match keepList fs with | some ks => subK ks | none => false) && SubF fs
  | _ => false
def SubF : List (String × Option Bytes × GoType) → Bool
  | [] => true
  | (_, _, t) :: r => Sub t && SubF r
end

def negZero : GoVal → Bool
  | .f64 b => b == 0x8000000000000000
  | .f32 b => b == 0x80000000
  | _ => false

mutual
def Conf : GoType → GoVal → Bool
  | .bool, .bool _ => true
  | .int _, .int _ => true
  | .uint _, .uint _ => true
  | .f32, .f32 _ => true
  | .f64, .f64 _ => true
  | .str, .str _ => true
  | .num, .num _ => true
  | .bytes, .nil => true
  | .bytes, .bytes _ => true
  | .sl _, .nil => true
  | .sl t, .sl xs => ConfL t xs
  | .arr n t, .arr xs => xs.length == n && ConfL t xs
  | .ptr _, .nil => true
  | .ptr t, .ptr v => Conf t v
  | .map _ _, .nil => true
  | .map k t, .map kvs => ConfM k t kvs
  | .st fs, .st vs =>
    match keepList fs with
    | some ks => ConfF fs ks vs
    | none => false
  | _, _ => false
def ConfL (t : GoType) : List GoVal → Bool
  | [] => true
  | v :: r => Conf t v && ConfL t r
def ConfM (k t : GoType) : List (GoVal × GoVal) → Bool
  | [] => true
  | (a, b) :: r => Conf k a && Conf t b && ConfM k t r
def ConfF : List (String × Option Bytes × GoType) → List (Option Field) → List GoVal → Bool
  | (_, _, t) :: fs, k :: ks, v :: vs =>
    Conf t v && (match k with | some f => !(f.omitEmpty && negZero v) | none => true) && ConfF fs ks vs
  | [], [], [] => true
  | _, _, _ => false
end

mutual
def need : GoType → Nat
  | .sl t => if isU8 t then 0 else need t + 1
  | .arr _ t | .ptr t => need t + 1
  | .map _ t => need t + 2
  | .st fs => needF fs + 1
  | _ => 0
def needF : List (String × Option Bytes × GoType) → Nat
  | [] => 0
  | (_, _, t) :: r => max (need t) (needF r)
end

end SonicSpec.Ir
