/-
  C17: the shipped stream decoder with any subset of the five small repairs
  patches/C17-{stray-closer-noprogress,truncated-clean-eof,scalar-split,error-precedence,
  number-frame-swallow}.diff applied.  `Patched.decode {}` (no repair) is the shipped decoder
  (`Faithful.decode`), which the theorems of Props/C17.lean speak about; the driver uses this
  family so that the correspondence holds on a tree with any subset of the patches.
  Core Lean only.
-/
import SonicSpec.Model.IO
namespace SonicSpec.IO

structure Repairs where
  closer : Bool := false   -- (a) a byte that cannot start a value at More(): syntax error, not nil
  trunc : Bool := false    -- (b) framing gives up at io.EOF: io.ErrUnexpectedEOF, not io.EOF
  split : Bool := false    -- (c) a number touching the end of the buffer: read on first
  inval : Bool := false    -- (d) -ERR_INVAL from the skip: syntax error at once, no read
  pos : Bool := false      -- (e) advance by Decoder.Pos(), not by the skipped extent
  clamp : Bool := false    -- (f) ... but never beyond the frame (Pos() counts in the UTF-8-corrected copy)
deriving DecidableEq, Repr

namespace Patched

abbrev Framed := Faithful.Framed

/-- readMore() gave up with the reader's error `e` (stream.go:166), then patch (b) -/
def failWith (rp : Repairs) (st : DState) (e : RErr) : DState :=
  setErr st (if rp.trunc && e == .eof then .syntaxError else e.toTerminal)

/-- the number that starts at index `i` of `buf` runs to the end of `buf` (patch (c)) -/
def numTouchesEnd (buf : Bytes) (i : Nat) : Bool :=
  match buf.drop i with
  | c :: _ => isNumStart c && (i + numRun (buf.drop i) == buf.length)
  | [] => false

/-- the byte at index `s` is NUL: the native skip reports it as end of input, patch (d) as a
    character that cannot start a value -/
def nulAt (buf : Bytes) (s : Nat) : Bool :=
  match buf.drop s with
  | c :: _ => c == 0
  | [] => false

/-- `try_skip:` once the reader has nothing more to give but its error `e` -/
def endSkip (rp : Repairs) (st : DState) (s : Nat) (e : RErr) : Framed :=
  match skipOneFast (st.buf.drop s) with
  | .ok y x => .ok st y x [] e            -- (c): readSome() gets (0, e) and the frame is accepted
  | .inval =>
    if rp.inval then .failed (setErr st .syntaxError) [] e
    else .failed (failWith rp { st with scanp := st.buf.length } e) [] e
  | .eof =>
    if rp.inval && nulAt st.buf s then .failed (setErr st .syntaxError) [] e
    else .failed (failWith rp { st with scanp := st.buf.length } e) [] e

def frameLoop (rp : Repairs) (st : DState) (s : Nat) (reskip : Bool) : Script → RErr → Framed
  | [], f =>
    if reskip then endSkip rp st s f
    else .failed (failWith rp { st with scanp := st.buf.length } f) [] f
  | (d, oe) :: rest, f =>
    match (if reskip then skipOneFast (st.buf.drop s) else SkipRes.eof) with
    | .ok y x =>
      if rp.split && numTouchesEnd st.buf (y + s) then
        -- readSome(): one more Read, then `goto try_skip` (an empty Read re-frames the same bytes)
        match oe with
        | none => frameLoop rp (append st d) s true rest f
        | some e => if d.isEmpty then .ok st y x [] e else endSkip rp (append st d) s e
      else .ok st y x ((d, oe) :: rest) f
    | r =>
      if rp.inval && reskip && (r == .inval || nulAt st.buf s) then .failed (setErr st .syntaxError) ((d, oe) :: rest) f
      else
        let st1 := { append st d with scanp := st.buf.length }
        match oe with
        | none =>
          match scan st1 with
          | some (_, st2) => frameLoop rp st2 s true rest f
          | none => frameLoop rp st1 s false rest f
        | some e =>
          match scan st1 with
          | some (_, st2) => endSkip rp st2 s e
          | none => .failed (failWith rp st1 e) [] e

variable {V : Type} (dec : Bytes → Option (V × Nat))

def decode (rp : Repairs) (st : DState) (sc : Script) (f : RErr) : DecodeRes V × DState × Script × RErr :=
  match st.err with
  | some t => (.error t, st, sc, f)
  | none =>
    match peek st sc f with
    | (none, st1, sc1, f1) =>
      (match st1.err with | some t => .error t | none => .nothing, st1, sc1, f1)
    | (some c, st1, sc1, f1) =>
      if c == 93 || c == 125 then
        if rp.closer then (.error .syntaxError, setErr st1 .syntaxError, sc1, f1)
        else (.nothing, st1, sc1, f1)
      else
        let s := st1.scanp
        match frameLoop rp st1 s true sc1 f1 with
        | .failed st2 sc2 f2 =>
          (match st2.err with | some t => .error t | none => .error .syntaxError, st2, sc2, f2)
        | .ok st2 y x sc2 f2 =>
          let s' := y + s
          let e := x + s'
          match dec ((st2.buf.drop s').take (e - s')) with
          | none => (.error .syntaxError, setErr st2 .syntaxError, sc2, f2)
          | some (v, n) =>
            (.value v, finish { st2 with scanp :=
              if rp.pos then s' + (if rp.clamp then min n (e - s') else n) else e }, sc2, f2)

/-- everything repeated `Decode` calls return on a fresh decoder with the repairs `rp` -/
def outputs (rp : Repairs) (sc : Script) (f : RErr) : List V × Stop :=
  run (decode dec rp) ((concat sc).length + 1) {} sc f

end Patched

/-- the repairs present in /repo HEAD (commits a42bc85, 4c2a9a8, 2781d4b, 105fdc7, c7adce7, 8414582) -/
def Repairs.head : Repairs :=
  { closer := true, trunc := true, split := true, inval := true, pos := true, clamp := true }

end SonicSpec.IO
