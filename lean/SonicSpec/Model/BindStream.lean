/-
  Core D, decoding half: `Stream.decode` = the SINGLE-PASS decoder, the architecture of sonic's JIT
  (internal/decoder/jitdec/compiler.go): type-directed, reads tokens straight from the bytes; the
  destination type decides which first byte is acceptable (`checkIfSkip`, compiler.go:1352); on a kind
  mismatch the error is recorded and the value is SKIPPED with the structural skipper (`_OP_go_skip` →
  native skip_one); unknown struct fields and elements beyond a fixed array are skipped the same way
  (`_OP_struct_field` not found, `_OP_array_skip`).  Under ConfigStd (ValidateString) the skipper checks
  string literals strictly, otherwise only for structure (backslash protects one byte) - the documented
  leniency.

  Same fuel discipline as `Json.parseVal` / `Bind.parseR` so that the equivalence proof
  (Proofs/BindStream.lean) is one induction on the fuel.  Core Lean only.

  What this model takes from the specification rather than from the JIT (tied by correspondence, and where
  the real code differs it is a listed finding): the field lookup (`lookupField`: the JIT folds with
  strings.ToLower), integer map keys (`bindKey`: the JIT reads them as JSON number literals), the content
  of `,string` fields (`bindQuoted`), the generic decoder for interface{} (parse, then `toAny`), and the
  RawMessage text of a string, which is scanned strictly under either configuration.
-/
import SonicSpec.Model.Bind
namespace SonicSpec.Stream
open SonicSpec SonicSpec.Go SonicSpec.Json SonicSpec.Bind

/-- structural string scanner (after the opening quote): up to the closing quote, a backslash protects
    the next byte, nothing else is looked at; returns (body, rest) -/
def skipStringB : Bytes → Option (Bytes × Bytes)
  | [] => none
  | 34 :: r => some ([], r)
  | 92 :: e :: r => (skipStringB r).map fun (b, t) => (92 :: e :: b, t)
  | c :: r => if c == 92 then none else (skipStringB r).map fun (b, t) => (c :: b, t)

/-- the string scanner of the skipper: strict (RFC escapes, no control characters) when strings are
    validated, structural otherwise -/
def skipStr (strict : Bool) (r : Bytes) : Option (Bytes × Bytes) :=
  if strict then scanString r else skipStringB r

mutual
/-- native `skip_one`: consume one value, checking structure (and numbers and literals exactly) -/
def skipVal (strict : Bool) : Nat → Bytes → Option Bytes
  | 0, _ => none
  | n+1, s =>
    match s with
    | 110 :: 117 :: 108 :: 108 :: r => some r
    | 116 :: 114 :: 117 :: 101 :: r => some r
    | 102 :: 97 :: 108 :: 115 :: 101 :: r => some r
    | 34 :: r => (skipStr strict r).map fun p => p.2
    | 91 :: r =>
      match skipWs r with
      | 93 :: t => some t
      | r' => skipElems strict n r'
    | 123 :: r =>
      match skipWs r with
      | 125 :: t => some t
      | r' => skipMembers strict n r'
    | _ => (scanNumber s).map fun p => p.2
def skipElems (strict : Bool) : Nat → Bytes → Option Bytes
  | 0, _ => none
  | n+1, s =>
    match skipVal strict n s with
    | none => none
    | some r =>
      match skipWs r with
      | 44 :: t => skipElems strict n (skipWs t)
      | 93 :: t => some t
      | _ => none
def skipMembers (strict : Bool) : Nat → Bytes → Option Bytes
  | 0, _ => none
  | n+1, s =>
    match s with
    | 34 :: r =>
      match skipStr strict r with
      | none => none
      | some (_, r1) =>
        match skipWs r1 with
        | 58 :: r2 =>
          match skipVal strict n (skipWs r2) with
          | none => none
          | some r3 =>
            match skipWs r3 with
            | 44 :: t => skipMembers strict n (skipWs t)
            | 125 :: t => some t
            | _ => none
        | _ => none
    | _ => none
end

/-- a whole document passes the structural skipper -/
def structuralDoc (strict : Bool) (s : Bytes) : Bool :=
  match skipVal strict (s.length + 1) (skipWs s) with
  | some r => (skipWs r).isEmpty
  | none => false

/-- first-byte class of a value: what `checkIfSkip` / the native `vstring`/`vnumber` dispatch look at -/
inductive Tok where
  | str (r : Bytes)     -- `"`, rest after the quote
  | arr (r : Bytes)     -- `[`
  | obj (r : Bytes)     -- `{`
  | lit                 -- `t` or `f`
  | other               -- anything else: a number, or garbage

def tok : Bytes → Tok
  | 34 :: r => .str r
  | 91 :: r => .arr r
  | 123 :: r => .obj r
  | 116 :: _ => .lit
  | 102 :: _ => .lit
  | _ => .other

def boolLit : Bytes → Option (Bool × Bytes)
  | 116 :: 114 :: 117 :: 101 :: r => some (true, r)
  | 102 :: 97 :: 108 :: 115 :: 101 :: r => some (false, r)
  | _ => none

def boolText (b : Bool) : Bytes := if b then [116, 114, 117, 101] else [102, 97, 108, 115, 101]

/-- what a RawMessage destination receives: the text of the skipped value (strings are scanned
    strictly here: a RawMessage is stored, not skipped) -/
def rawSkip (strict : Bool) (n : Nat) (s : Bytes) : Option (Bytes × Bytes) :=
  match tok s with
  | .str r => (scanString r).map fun (b, t) => (34 :: (b ++ [34]), t)
  | .arr _ => (skipVal strict n s).map fun t => (consumed s t, t)
  | .obj _ => (skipVal strict n s).map fun t => (consumed s t, t)
  | .lit => (boolLit s).map fun (b, r) => (boolText b, r)
  | .other => (scanNumber s).map fun (l, t) => (l, t)

/-- result of a decoding step: hard (syntax) error, or value + first saved error + rest of the input -/
abbrev Res (α : Type) := Except DErr (α × Option DErr × Bytes)

/-- record a mismatch and skip the value (`_OP_dismatch_err` + `_OP_go_skip`) -/
def skipMismatch (strict : Bool) (n : Nat) (T : GoType) (s : Bytes) (cur : GoVal) (e : DErr) : Res GoVal :=
  match skipVal strict n s with
  | some r => .ok (wrapPtr T (peel T cur), some e, r)
  | none => .error .syntax

def isNullLit : Bytes → Option Bytes
  | 110 :: 117 :: 108 :: 108 :: r => some r
  | _ => none

/-- the generic decoder behind `_OP_any` (generic_regabi_amd64.go): a token-directed parse that builds
    interface values; specified as parse-then-`toAny` -/
def decodeAny (o : DecOpts) (n : Nat) (s : Bytes) : Res GoVal :=
  match parseR n s with
  | some (v, r) => let (g, e) := toAny o v; .ok (g, e, r)
  | none => .error .syntax

/-- a `,string` field: the value must be a string literal (or null); its content goes through the
    same literal store as in the specification -/
def decodeQuoted (o : DecOpts) : Nat → GoType → Bytes → GoVal → Res GoVal
  | 0, _, _, _ => .error .syntax
  | n+1, T, s, cur =>
    match isNullLit s with
    | some r => .ok (bindNull T cur, none, r)
    | none =>
      match tok s with
      | .str r =>
        match scanString r with
        | some (b, t) =>
          match unquote b with
          | some u => let (v, e) := bindQuoted o (.str b u) T cur; .ok (v, e, t)
          | none => .error .syntax
        | none => .error .syntax
      | _ =>
        match skipVal true (n+1) s with
        | some r => .ok (cur, some .other, r)
        | none => .error .syntax

mutual
/-- one value at the head of `s` (no leading space) into a destination of type `T` holding `cur` -/
def decodeVal (o : DecOpts) : Nat → GoType → Bytes → GoVal → Res GoVal
  | 0, _, _, _ => .error .syntax
  | n+1, T, s, cur =>
    match isNullLit s with
    | some r => .ok (bindNull T cur, none, r)          -- `_OP_is_null`
    | none =>
      let strict := o.validateString
      let c := peel T cur
      match ptrBase T with
      | .bool =>
        match boolLit s with
        | some (b, r) => .ok (wrapPtr T (.bool b), none, r)
        | none => skipMismatch strict (n+1) T s cur .mismatch
      | .int w =>
        match tok s with
        | .other =>
          match scanNumber s with
          | some (l, r) => let (v, e) := storeNumber o false l (.int w) c; .ok (wrapPtr T v, e, r)
          | none => .error .syntax
        | _ => skipMismatch strict (n+1) T s cur .mismatch
      | .uint w =>
        match tok s with
        | .other =>
          match scanNumber s with
          | some (l, r) => let (v, e) := storeNumber o false l (.uint w) c; .ok (wrapPtr T v, e, r)
          | none => .error .syntax
        | _ => skipMismatch strict (n+1) T s cur .mismatch
      | .f64 =>
        match tok s with
        | .other =>
          match scanNumber s with
          | some (l, r) => let (v, e) := storeNumber o false l .f64 c; .ok (wrapPtr T v, e, r)
          | none => .error .syntax
        | _ => skipMismatch strict (n+1) T s cur .mismatch
      | .f32 =>
        match tok s with
        | .other =>
          match scanNumber s with
          | some (l, r) => let (v, e) := storeNumber o false l .f32 c; .ok (wrapPtr T v, e, r)
          | none => .error .syntax
        | _ => skipMismatch strict (n+1) T s cur .mismatch
      | .num =>
        match tok s with
        | .str r =>
          match scanString r with
          | none => .error .syntax
          | some (b, t) =>
            match unquote b with
            | none => .error .syntax
            | some u => let (v, e) := storeString u (34 :: (b ++ [34])) .num c; .ok (wrapPtr T v, e, t)
        | .other =>
          match scanNumber s with
          | some (l, r) => .ok (wrapPtr T (.num l), none, r)
          | none => .error .syntax
        | _ => skipMismatch strict (n+1) T s cur .mismatch
      | .str =>
        match tok s with
        | .str r =>
          match scanString r with
          | none => .error .syntax
          | some (b, t) =>
            match unquote b with
            | none => .error .syntax
            | some u => .ok (wrapPtr T (.str u), none, t)
        | _ => skipMismatch strict (n+1) T s cur .mismatch
      | .bytes =>
        match tok s with
        | .str r =>
          match scanString r with
          | none => .error .syntax
          | some (b, t) =>
            match unquote b with
            | none => .error .syntax
            | some u => let (v, e) := storeString u (34 :: (b ++ [34])) .bytes c; .ok (wrapPtr T v, e, t)
        | .arr r =>
          match skipWs r with
          | 93 :: t => .ok (wrapPtr T (.bytes []), none, t)
          | r' =>
            match decodeElems o n (.uint 8) r' (curElems c) none with
            | .error e => .error e
            | .ok (vs, e, t) => .ok (wrapPtr T (.bytes (toBytes vs)), e, t)
        | _ => skipMismatch strict (n+1) T s cur .mismatch
      | .sl t =>
        match tok s with
        | .arr r =>
          match skipWs r with
          | 93 :: t' => .ok (wrapPtr T (.sl []), none, t')
          | r' =>
            match decodeElems o n t r' (curElems c) none with
            | .error e => .error e
            | .ok (vs, e, t') => .ok (wrapPtr T (.sl vs), e, t')
        | .str r =>
          match t with
          | .uint 8 =>
            match scanString r with
            | none => .error .syntax
            | some (b, t') =>
              match unquote b with
              | none => .error .syntax
              | some u => let (v, e) := storeString u (34 :: (b ++ [34])) (.sl (.uint 8)) c; .ok (wrapPtr T v, e, t')
          | _ => skipMismatch strict (n+1) T s cur .mismatch
        | _ => skipMismatch strict (n+1) T s cur .mismatch
      | .arr k t =>
        match tok s with
        | .arr r =>
          match skipWs r with
          | 93 :: t' => .ok (wrapPtr T (.arr (List.replicate k (zeroOf t))), none, t')
          | r' =>
            match decodeElems o n t r' (curElems c) (some k) with
            | .error e => .error e
            | .ok (vs, e, t') => .ok (wrapPtr T (.arr (vs ++ List.replicate (k - vs.length) (zeroOf t))), e, t')
        | _ => skipMismatch strict (n+1) T s cur .mismatch
      | .st fs =>
        match tok s with
        | .obj r =>
          match skipWs r with
          | 125 :: t' => .ok (wrapPtr T (.st (curFields fs c)), none, t')
          | r' =>
            if (resolveFields fs).isEmpty then
              -- `_OP_skip_emtpy` (compiler.go:906): a struct without fields skips the whole object
              -- (keys included); any member is an unknown field
              match skipMembers strict n r' with
              | none => .error .syntax
              | some t' => .ok (wrapPtr T (.st (curFields fs c)), if o.disallowUnknown then some .unknownField else none, t')
            else
            match decodeStruct o n (resolveFields fs) r' (curFields fs c) with
            | .error e => .error e
            | .ok (vs, e, t') => .ok (wrapPtr T (.st vs), e, t')
        | _ => skipMismatch strict (n+1) T s cur .mismatch
      | .map K E =>
        match tok s with
        | .obj r =>
          if mapKeyOk K then
            match skipWs r with
            | 125 :: t' => .ok (wrapPtr T (.map (curEntries c)), none, t')
            | r' =>
              match decodeMap o n K E r' (curEntries c) with
              | .error e => .error e
              | .ok (es, e, t') => .ok (wrapPtr T (.map es), e, t')
          else skipMismatch strict (n+1) T s cur .mismatch
        | _ => skipMismatch strict (n+1) T s cur .mismatch
      | .any =>
        match decodeAny o (n+1) s with
        | .error e => .error e
        | .ok (g, e, r) => .ok (wrapPtr T g, e, r)
      | .raw =>
        match rawSkip strict (n+1) s with
        | some (txt, r) => .ok (wrapPtr T (.raw txt), none, r)
        | none => .error .syntax
      | .lib _ =>
        match skipVal true (n+1) s with
        | some r => .ok (wrapPtr T c, some .outside, r)
        | none => .error .syntax
      | .ptr _ => .error .other      -- unreachable: `ptrBase` never returns a pointer
/-- elements after `[` (at least one), up to and including `]`; beyond `lim` they are skipped -/
def decodeElems (o : DecOpts) : Nat → GoType → Bytes → List GoVal → Option Nat → Res (List GoVal)
  | 0, _, _, _, _ => .error .syntax
  | n+1, t, s, curs, lim =>
    if lim == some 0 then
      -- `_OP_array_skip`: the rest of the array is only skipped
      match skipVal o.validateString n s with
      | none => .error .syntax
      | some r =>
        match skipWs r with
        | 44 :: r' => decodeElems o n t (skipWs r') curs lim
        | 93 :: r' => .ok ([], none, r')
        | _ => .error .syntax
    else
      match decodeVal o n t s (curs.headD (zeroOf t)) with
      | .error e => .error e
      | .ok (v, e, r) =>
        match skipWs r with
        | 44 :: r' =>
          match decodeElems o n t (skipWs r') curs.tail (lim.map (· - 1)) with
          | .error e' => .error e'
          | .ok (vs, e', r'') => .ok (v :: vs, merge e e', r'')
        | 93 :: r' => .ok ([v], e, r')
        | _ => .error .syntax
/-- members after `{` (at least one) into a struct -/
def decodeStruct (o : DecOpts) : Nat → List Field → Bytes → List GoVal → Res (List GoVal)
  | 0, _, _, _ => .error .syntax
  | n+1, fields, s, vs =>
    match s with
    | 34 :: r =>
      match scanString r with
      | none => .error .syntax
      | some (k, r1) =>
        match skipWs r1 with
        | 58 :: r2 =>
          let step : Res (List GoVal) :=
            match unquote k with
            | none => .error .syntax
            | some key =>
              match lookupField fields o.caseSensitive key with
              | .outside =>
                match skipVal true n (skipWs r2) with
                | none => .error .syntax
                | some r3 => .ok (vs, some .outside, r3)
              | .missing =>
                -- unknown field: skipped (`_OP_struct_field` → skip), or refused
                match skipVal o.validateString n (skipWs r2) with
                | none => .error .syntax
                | some r3 => .ok (vs, if o.disallowUnknown then some .unknownField else none, r3)
              | .found f =>
                let cur := vs.getD f.idx (zeroOf f.ty)
                match (if f.quoted then decodeQuoted o n f.ty (skipWs r2) cur else decodeVal o n f.ty (skipWs r2) cur) with
                | .error e => .error e
                | .ok (v, e, r3) => .ok (vs.set f.idx v, e, r3)
          match step with
          | .error e => .error e
          | .ok (vs', e, r3) =>
            match skipWs r3 with
            | 44 :: t =>
              match decodeStruct o n fields (skipWs t) vs' with
              | .error e' => .error e'
              | .ok (res, e', t') => .ok (res, merge e e', t')
            | 125 :: t => .ok (vs', e, t)
            | _ => .error .syntax
        | _ => .error .syntax
    | _ => .error .syntax
/-- members after `{` (at least one) into a map -/
def decodeMap (o : DecOpts) : Nat → GoType → GoType → Bytes → List (GoVal × GoVal) → Res (List (GoVal × GoVal))
  | 0, _, _, _, _ => .error .syntax
  | n+1, K, E, s, acc =>
    match s with
    | 34 :: r =>
      match scanString r with
      | none => .error .syntax
      | some (k, r1) =>
        match skipWs r1 with
        | 58 :: r2 =>
          let step : Res (List (GoVal × GoVal)) :=
            match unquote k with
            | none => .error .syntax
            | some key =>
              match decodeVal o n E (skipWs r2) (zeroOf E) with
              | .error e => .error e
              | .ok (v, e, r3) =>
                match bindKey K key with
                | .key kv => .ok (mapSet acc kv v, e, r3)
                | _ => .ok (acc, merge e (some .mismatch), r3)
          match step with
          | .error e => .error e
          | .ok (acc', e1, r3) =>
              match skipWs r3 with
              | 44 :: t =>
                match decodeMap o n K E (skipWs t) acc' with
                | .error e' => .error e'
                | .ok (res, e', t') => .ok (res, merge e1 e', t')
              | 125 :: t => .ok (acc', e1, t)
              | _ => .error .syntax
        | _ => .error .syntax
    | _ => .error .syntax
end

/-- value and first saved error of a whole document; `.error` = syntax error met on the way -/
def decodeFull (o : DecOpts) (T : GoType) (s : Bytes) : Except DErr (GoVal × Option DErr) :=
  match decodeVal o (s.length + 1) T (skipWs s) (zeroOf T) with
  | .error e => .error e
  | .ok (v, e, r) => if (skipWs r).isEmpty then .ok (v, e) else .error .syntax    -- CheckTrailings (sonic.go)

def decode (o : DecOpts) (T : GoType) (s : Bytes) : Except DErr GoVal :=
  match decodeFull o T s with
  | .ok (v, none) => .ok v
  | .ok (_, some e) => .error e
  | .error e => .error e

end SonicSpec.Stream
