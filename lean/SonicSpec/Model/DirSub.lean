/-
  Core D, deep part (4): the sub-universe of the compiler-correctness theorem (Props/C01Dir
  `exec_compile_eq_stream_partial`): bool, the integer kinds, strings, interface{}, pointers, slices (not of bytes), arrays,
  structs whose JSON-visible fields do not carry the `,string` option, and the float kinds.

  Outside, and why: json.Number, []byte (base64), named types (callbacks), maps (an element is decoded into the entry already
  stored: witness `map_dup_key_deviates`; map[string]E at the top with pairwise different keys is Proofs/DirMap.lean), `,string`
  (the quoted content is read in place, not unquoted first: witness `string_opt_deviates`).
-/
import SonicSpec.Model.DirExec
namespace SonicSpec.Dir
open SonicSpec SonicSpec.Go SonicSpec.Bind

def notU8 : GoType → Bool
  | .uint 8 => false
  | _ => true

/-- the integer widths of Go -/
def okWidth (w : Nat) : Bool := w == 8 || w == 16 || w == 32 || w == 64

mutual
def Sub : GoType → Bool
  | .bool | .str | .f32 | .f64 | .any => true
  | .int w | .uint w => okWidth w
  | .ptr t => Sub t
  | .sl t => notU8 t && Sub t
  | .arr _ t => Sub t
  | .st fs => SubF fs && (resolveFields fs).all fun f => !f.quoted
  | _ => false
def SubF : List (String × Option Bytes × GoType) → Bool
  | [] => true
  | (_, _, t) :: r => Sub t && SubF r
end

end SonicSpec.Dir
