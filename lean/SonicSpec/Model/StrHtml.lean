/-
  Core B (strings) - HTML escaping of JSON text.  Executable model, core Lean only.

  Sources transliterated:
    native/parsing.h:104  _HtmlQuoteTab                       -> `htmlImage`
    native/html_escape.c  html_escape (restartable)           -> `htmlCall` (one call with `room` bytes of output)
    internal/encoder/alg/spec.go:124 HtmlEscape (grow + retry)-> `htmlLoop`
  `htmlEscape` is the function the loop computes when the destination never fills up.
-/
import SonicSpec.Model.Hex
namespace SonicSpec.Str

/-- `\u00XY` / `\u20XY` images of the five escaped characters (parsing.h:104-112) -/
def htmlLt : Bytes := [92, 117, 48, 48, 51, 99]     -- <
def htmlGt : Bytes := [92, 117, 48, 48, 51, 101]    -- >
def htmlAmp : Bytes := [92, 117, 48, 48, 50, 54]    -- &
def htmlLS : Bytes := [92, 117, 50, 48, 50, 56]     --
def htmlPS : Bytes := [92, 117, 50, 48, 50, 57]     --

/-- image of one byte that is not part of E2 80 A8/A9 -/
def htmlByte (c : UInt8) : Bytes :=
  if c == 60 then htmlLt else if c == 62 then htmlGt else if c == 38 then htmlAmp else [c]

/-- what `encoder.HTMLEscape(nil, src)` returns: `<`, `>`, `&` and the UTF-8 forms of U+2028/U+2029
    (E2 80 A8 / E2 80 A9, html_escape.c:42-52) replaced by \uXXXX escapes, everything else copied -/
def htmlEscape : Bytes → Bytes
  | [] => []
  | c :: x :: y :: t' =>
    if c == 226 && x == 128 && y == 168 then htmlLS ++ htmlEscape t'
    else if c == 226 && x == 128 && y == 169 then htmlPS ++ htmlEscape t'
    else htmlByte c ++ htmlEscape (x :: y :: t')
  | c :: t => htmlByte c ++ htmlEscape t

/-- One native call (html_escape.c) with `room` bytes left in the destination: the images of a prefix of
    the tokens are written greedily (plain runs are copied up to the room that is left,
    parsing.h:528 memcchr_html_quote; an escape is written only when it fits entirely, html_escape.c:62-66);
    returns what was written and the unconsumed input (empty = finished, return value >= 0). -/
def htmlCall : Nat → Bytes → Bytes × Bytes
  | _, [] => ([], [])
  | room, c :: x :: y :: t' =>
    if c == 226 && x == 128 && y == 168 then
      (if room < 6 then ([], c :: x :: y :: t')
       else match htmlCall (room - 6) t' with
        | (o, r) => (htmlLS ++ o, r))
    else if c == 226 && x == 128 && y == 169 then
      (if room < 6 then ([], c :: x :: y :: t')
       else match htmlCall (room - 6) t' with
        | (o, r) => (htmlPS ++ o, r))
    else
      (if room < (htmlByte c).length then ([], c :: x :: y :: t')
       else match htmlCall (room - (htmlByte c).length) (x :: y :: t') with
        | (o, r) => (htmlByte c ++ o, r))
  | room, c :: t =>
    if room < (htmlByte c).length then ([], c :: t)
    else match htmlCall (room - (htmlByte c).length) t with
      | (o, r) => (htmlByte c ++ o, r)

/-- spec.go:124 `HtmlEscape`: the destination buffer starts as `dst`; each native call appends what it
    wrote (`dbuf.Len += dn`); when the call did not finish the buffer is grown and the call repeated on
    the rest.  `rooms` lists the free space offered to the successive calls (any growth policy); once the
    list is used up the space is unbounded (the real policy doubles the capacity, so this happens). -/
def htmlLoop : List Nat → Bytes → Bytes → Bytes
  | [], buf, src => buf ++ htmlEscape src
  | room :: rooms, buf, src =>
    match htmlCall room src with
    | (o, []) => buf ++ o
    | (o, r) => htmlLoop rooms (buf ++ o) r

/-- `encoder.HTMLEscape(dst, src)` -/
def htmlEscapeInto (dst src : Bytes) : Bytes := htmlLoop [] dst src

end SonicSpec.Str
