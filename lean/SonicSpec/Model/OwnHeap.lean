/-
  Core H (buffers), part 2: the heap of byte arrays with owner tags, the three `sync.Pool`s, and the
  public calls as state transformers.  Core Lean only.

  Transliterated from
    internal/encoder/vars/stack.go:56  NewBytes   :118 NewBuffer  :126 FreeBytes  :138 FreeBuffer
    internal/rt/fastmem.go:154         CanSizeResue(cap) = cap <= option.LimitBufferSize
    internal/encoder/encoder.go:169    Encode   (copy-out when the capacity may be pooled, else hand-over)
    internal/encoder/encoder.go:231    encodeFinishWithPool (the `*buf, *dst = HTMLEscape(*dst,*buf), *buf` swap)
    internal/encoder/encoder.go:197    EncodeInto  :221 encodeFinish
    internal/encoder/encoder.go:259    EncodeIndented
    ast/encode.go:94                   (*Node).MarshalJSON  :122 newBuffer  :131 freeBuffer
    ast/node.go:176                    (*Node).Raw
    sonic.go:129                       Unmarshal = UnmarshalFromString(string(buf), val)
    api.go:213, ast/search.go:90       Get([]byte) -> GetByPathCopy: `[]byte(s[start:p])`
  A pool holds `*[]byte`; what matters for ownership is the backing ARRAY, so the model's pool
  holds array ids.  `sync.Pool.Get` may return any pooled item or nothing: the choice is an
  argument (`pick`) of every call.
-/
import SonicSpec.Model.Own
namespace SonicSpec.Own
open SonicSpec

inductive Owner
  | pool      -- resting in a sync.Pool
  | caller    -- handed to (or created by) the caller
  | internal  -- held by a library call in progress, or abandoned by one
  deriving DecidableEq, Repr

structure Buf where
  owner : Owner
  mem : Bytes      -- the whole backing array; its length is the capacity
  len : Nat
  deriving DecidableEq, Repr

inductive PoolKind
  | encBytes    -- vars.bytesPool
  | encBuffer   -- vars.bufferPool
  | astBytes    -- ast.bytesPool
  deriving DecidableEq, Repr

/-- what a call returned: array `id`, bytes `[off, off+|bytes|)` as they were at return time -/
structure Result where
  id : Nat
  off : Nat
  bytes : Bytes
  deriving DecidableEq, Repr

/-- "the library may have stored into `[off, hi)` of array `id`" -/
structure WriteEv where
  id : Nat
  off : Nat
  hi : Nat
  cap : Nat            -- capacity of the array at that time
  owner : Owner        -- its owner tag at that time
  lent : Option Nat    -- `some l`: it is the slice the caller passed to this very call, of length `l`
  deriving DecidableEq, Repr

/-- regenerated facts enter here (option.LimitBufferSize, option.DefaultEncoderBufferSize,
    option.DefaultAstBufferSize) -/
structure Params where
  limit : Nat
  encDefault : Nat
  astDefault : Nat

structure State where
  heap : List Buf := []
  pool : List (PoolKind × Nat) := []
  results : List Result := []
  /-- arrays the caller created as decoder inputs and may overwrite at any time -/
  inputs : List Nat := []
  log : List WriteEv := []

/-- rt.CanSizeResue -/
def canReuse (P : Params) (cap : Nat) : Bool := cap ≤ P.limit

namespace State

def alloc (st : State) (o : Owner) (mem : Bytes) (len : Nat) : State × Nat :=
  ({ st with heap := st.heap ++ [⟨o, mem, len⟩] }, st.heap.length)

def setBuf (st : State) (id : Nat) (b : Buf) : State := { st with heap := st.heap.set id b }

/-- what `sync.Pool.Get` may return for this pool: `pick = 0` nothing, otherwise one of the items -/
def candidates (st : State) (k : PoolKind) : List Nat := (st.pool.filter (fun p => p.1 == k)).map (·.2)

def choose (st : State) (k : PoolKind) (pick : Nat) : Option Nat :=
  if pick = 0 then none else (st.candidates k)[(pick - 1) % (st.candidates k).length]?

/-- NewBytes / NewBuffer / newBuffer: a pooled array or a fresh one of the default capacity -/
def acquire (env : Env) (st : State) (k : PoolKind) (dflt : Nat) (pick : Nat) : State × Nat :=
  match st.choose k pick with
  | some id =>
    match st.heap[id]? with
    | some b => ({ st with heap := st.heap.set id { b with owner := .internal },
                           pool := st.pool.filter (fun p => p.2 != id) }, id)
    | none => st.alloc .internal (SBuf.fill env 0 dflt) 0
  | none => st.alloc .internal (SBuf.fill env 0 dflt) 0

/-- FreeBytes / FreeBuffer / freeBuffer: `(*p) = (*p)[:0]; pool.Put(p)` when the capacity may be pooled -/
def release (P : Params) (st : State) (k : PoolKind) (id : Nat) : State :=
  match st.heap[id]? with
  | some b =>
    if canReuse P b.mem.length then
      { st with heap := st.heap.set id { b with owner := .pool, len := 0 }, pool := (k, id) :: st.pool }
    else st
  | none => st

/-- return `[off, off+n)` of array `id` to the caller: the array is the caller's from now on -/
def give (st : State) (id off n : Nat) : State :=
  match st.heap[id]? with
  | some b =>
    { st with heap := st.heap.set id { b with owner := .caller },
              results := ⟨id, off, (b.mem.drop off).take n⟩ :: st.results }
  | none => st

/-- the library stored into the spare part of array `id` (contents and length afterwards given) -/
def write (st : State) (id : Nat) (off : Nat) (mem : Bytes) (len : Nat) (lent : Option Nat) : State :=
  match st.heap[id]? with
  | some b =>
    { st with heap := st.heap.set id { b with mem := mem, len := len },
              log := ⟨id, off, mem.length, b.mem.length, b.owner, lent⟩ :: st.log }
  | none => st

/-- the library may have stored into the spare part of array `id` before moving on to another array -/
def touch (st : State) (id : Nat) (off : Nat) (lent : Option Nat) : State :=
  match st.heap[id]? with
  | some b => { st with log := ⟨id, off, b.mem.length, b.mem.length, b.owner, lent⟩ :: st.log }
  | none => st

/-- Run a slice-level computation on array `id` as it is now.  When the slice is still in its
    array afterwards the array is updated in place; when it moved, the result is a new internal
    array (the old one keeps its tag and is never used again by this call). -/
def runOn (st : State) (id : Nat) (lent : Option Nat) (f : SBuf → Except Fault (SBuf × Bool)) :
    Except Fault (State × Nat × Bool) :=
  match st.heap[id]? with
  | none => .error .overrun
  | some b =>
    match f { mem := b.mem, len := b.len, gen := 0 } with
    | .error e => .error e
    | .ok (sb, err) =>
      if sb.gen = 0 then .ok (st.write id b.len sb.mem sb.len lent, id, err)
      else
        let r := (st.touch id b.len lent).alloc .internal sb.mem sb.len
        .ok (r.1, r.2, err)

def bytesOf (st : State) (id : Nat) : Bytes :=
  match st.heap[id]? with
  | some b => b.mem.take b.len
  | none => []

def capOf (st : State) (id : Nat) : Nat :=
  match st.heap[id]? with
  | some b => b.mem.length
  | none => 0

end State

/-- what a call gave back -/
inductive Ret
  | bytes (id : Nat) (b : Bytes)   -- a `[]byte` / `string` living in array `id`
  | err                            -- an `error`; nothing else returned
  | nothing                        -- a call without a byte result (scribble, gc)

/-- the tail shared by Encode, EncodeIndented and Node.MarshalJSON: copy out and recycle when
    the capacity may be pooled, otherwise hand the array itself over and do NOT recycle it -/
def finishPooled (P : Params) (st : State) (k : PoolKind) (id : Nat) : State × Ret :=
  let out := st.bytesOf id
  if canReuse P (st.capOf id) then
    let r := st.alloc .internal out out.length        -- dirtmake.Bytes(len, len); copy
    let st2 := State.release P r.1 k id
    (st2.give r.2 0 out.length, .bytes r.2 out)
  else
    (st.give id 0 out.length, .bytes id out)

structure Ctx where
  P : Params
  env : Env
  nat : Natives

/-- encoder.Encode (sonic.Marshal, MarshalString: `rt.Mem2Str` of the same array) -/
def opEncode (c : Ctx) (st : State) (o : Opts) (v : Val) (pick1 pick2 : Nat) : Except Fault (State × Ret) :=
  let a := st.acquire c.env .encBytes c.P.encDefault pick1
  match a.1.runOn a.2 none (encodeToks c.env (strEnc c.env c.nat .jit) (compile v)) with
  | .error e => .error e
  | .ok (st1, id1, true) => .ok (State.release c.P st1 .encBytes id1, .err)
  | .ok (st1, id1, false) =>
    if o.escapeHTML then
      let d := st1.acquire c.env .encBytes c.P.encDefault pick2
      let src := d.1.bytesOf id1
      match d.1.runOn d.2 none (fun sb => (htmlEscapeLoop c.env c.nat.html sb src).map (·, false)) with
      | .error e => .error e
      | .ok (st2, id2, _) =>
        -- `*buf, *dst = HTMLEscape(*dst, *buf), *buf; FreeBytes(dst)`: the OLD array is recycled
        .ok (finishPooled c.P (State.release c.P st2 .encBytes id1) .encBytes id2)
    else .ok (finishPooled c.P st1 .encBytes id1)

/-- how the caller presents the slice for EncodeInto -/
inductive Target
  | fresh (prior dirt : Bytes)   -- a new array of the caller's: contents, then a dirty spare part
  | again (id : Nat)             -- an array the caller already owns (append to an earlier result)

/-- the array behind the slice the caller passes (`none`: not a slice the caller may pass) -/
def resolveTarget (st : State) : Target → Option (State × Nat)
  | .fresh prior dirt => some (st.alloc .caller (prior ++ dirt) prior.length)
  | .again id =>
    match st.heap[id]? with
    | some b => if b.owner = .caller ∧ id ∉ st.inputs then some (st, id) else none
    | none => none

/-- encoder.EncodeInto(&buf, v, opts) -/
def opEncodeInto (c : Ctx) (st : State) (o : Opts) (impl : StrImpl) (t : Target) (v : Val) :
    Except Fault (State × Ret) :=
  match resolveTarget st t with
  | none => .ok (st, .nothing)             -- not a call the caller can make
  | some (st0, id) =>
    let l := (st0.bytesOf id).length
    match st0.runOn id (some l) (encodeInto c.env c.nat impl o · v) with
    | .error e => .error e
    | .ok (st1, id1, true) =>
      -- error: `*buf` keeps whatever was appended; the caller still holds the slice
      let n := (st1.bytesOf id1).length
      .ok (st1.give id1 0 n, .err)
    | .ok (st1, id1, false) =>
      let n := (st1.bytesOf id1).length
      .ok (st1.give id1 0 n, .bytes id1 (st1.bytesOf id1))

/-- what json.Indent writes for the (possibly HTML-escaped) compact output: the escape ran before
    the layout, so it touched the string literals only - never the caller's prefix / indent -/
def indentText (o : Opts) (pre ind : Bytes) (v : Val) : Bytes :=
  indentV (if o.escapeHTML then fun s => htmlEscape (Str.quote s) else Str.quote) pre ind 0 v

/-- encoder.EncodeIndented (sonic.MarshalIndent); bytes.Buffer grows like `append`. -/
def opIndent (c : Ctx) (st : State) (o : Opts) (v : Val) (pre ind : Bytes) (pick1 pick2 : Nat) :
    Except Fault (State × Ret) :=
  let a := st.acquire c.env .encBytes c.P.encDefault pick1
  match a.1.runOn a.2 none (encodeInto c.env c.nat .jit o · v) with
  | .error e => .error e
  | .ok (st1, id1, true) => .ok (State.release c.P st1 .encBytes id1, .err)
  | .ok (st1, id1, false) =>
    let d := st1.acquire c.env .encBuffer c.P.encDefault pick2
    let text := indentText o pre ind v
    match d.1.runOn d.2 none (fun sb => (sb.emit c.env text).map (·, false)) with
    | .error e => .error e
    | .ok (st2, id2, _) =>
      .ok (finishPooled c.P (State.release c.P st2 .encBytes id1) .encBuffer id2)

/-- an ast.Node as far as ownership is concerned -/
inductive NodeRep
  | raw (id : Nat)       -- unparsed: refers to its source text, array `id` (a string the caller holds)
  | loaded (v : Val)     -- parsed / constructed: a tree

/-- (*Node).MarshalJSON and (*Node).Raw (`rt.Mem2Str` of the same array) -/
def opNode (c : Ctx) (st : State) (n : NodeRep) (pick : Nat) : Except Fault (State × Ret) :=
  match n with
  | .raw id =>
    match st.heap[id]? with
    | some b =>
      if b.owner = .caller ∧ id ∉ st.inputs then
        -- fast path: `rt.Str2Mem(self.toString())` - the source text itself, nothing written
        .ok (st.give id 0 b.len, .bytes id (b.mem.take b.len))
      else .ok (st, .nothing)
    | none => .ok (st, .nothing)
  | .loaded v =>
    let a := st.acquire c.env .astBytes c.P.astDefault pick
    match a.1.runOn a.2 none (encodeToks c.env (strEnc c.env c.nat .alg) (compile v)) with
    | .error e => .error e
    | .ok (st1, id1, true) => .ok (State.release c.P st1 .astBytes id1, .err)
    | .ok (st1, id1, false) => .ok (finishPooled c.P st1 .astBytes id1)

/-- the caller may overwrite array `id` from now on -/
def State.registerInput (st : State) (id : Nat) : State := { st with inputs := id :: st.inputs }

def State.addResults (st : State) (rs : List Result) : State := { st with results := rs ++ st.results }

/-- the decoded values that refer to ranges of array `id` holding `doc` -/
def decodeResults (id : Nat) (doc : Bytes) (parts : List (Nat × Nat)) : List Result :=
  (parts.filter (fun p => p.1 + p.2 ≤ doc.length)).map (fun p => ⟨id, p.1, (doc.drop p.1).take p.2⟩)

/-- A decoding call.  `doc` is the caller's input array (created here, the caller may overwrite it
    later); `parts` are the (offset, length) ranges of the input that decoded values refer to
    without unescaping.  `copy = true`: sonic.Unmarshal([]byte) (`string(buf)`), sonic.Get([]byte)
    (`[]byte(s[start:p])`), decoders with the CopyString option (`_copy_string`: malloc + memmove per
    string) - the values refer to a private copy.  `copy = false`: UnmarshalString / GetFromString
    without CopyString - the values refer to the input itself. -/
def opDecode (st : State) (doc : Bytes) (parts : List (Nat × Nat)) (copy : Bool) : State × Ret :=
  let a := st.alloc .caller doc doc.length
  if copy then
    let cp := (a.1.registerInput a.2).alloc .internal doc doc.length
    ((cp.1.give cp.2 0 0).addResults (decodeResults cp.2 doc parts), .nothing)
  else
    (a.1.addResults (decodeResults a.2 doc parts), .nothing)

/-- the caller overwrites one of its decoder inputs -/
def opScribble (st : State) (id : Nat) (junk : Bytes) : State :=
  match st.heap[id]? with
  | some b =>
    if id ∈ st.inputs ∧ junk.length = b.mem.length then st.setBuf id { b with mem := junk } else st
  | none => st

/-- a garbage collection empties the pools -/
def opGC (st : State) : State := { st with pool := [] }

/-- one step of a history -/
inductive Op
  | marshal (o : Opts) (v : Val) (pick1 pick2 : Nat)                -- Marshal / MarshalString
  | indent (o : Opts) (v : Val) (pre ind : Bytes) (pick1 pick2 : Nat)
  | encodeInto (o : Opts) (impl : StrImpl) (t : Target) (v : Val)
  | node (n : NodeRep) (pick : Nat)                                 -- Node.MarshalJSON / Raw
  | decode (doc : Bytes) (parts : List (Nat × Nat)) (copy : Bool)   -- Unmarshal / Get / CopyString ...
  | scribble (id : Nat) (junk : Bytes)
  | gc

/-- a faulting call leaves the state alone (under the contracts no call faults: Props/C06) -/
def step (c : Ctx) (st : State) : Op → State × Ret
  | .marshal o v p1 p2 => match opEncode c st o v p1 p2 with | .ok r => r | .error _ => (st, .nothing)
  | .indent o v pre ind p1 p2 => match opIndent c st o v pre ind p1 p2 with | .ok r => r | .error _ => (st, .nothing)
  | .encodeInto o impl t v => match opEncodeInto c st o impl t v with | .ok r => r | .error _ => (st, .nothing)
  | .node n p => match opNode c st n p with | .ok r => r | .error _ => (st, .nothing)
  | .decode doc parts copy => opDecode st doc parts copy
  | .scribble id junk => (opScribble st id junk, .nothing)
  | .gc => (opGC st, .nothing)

def run (c : Ctx) (st : State) : List Op → State
  | [] => st
  | op :: r => run c (step c st op).1 r

/-- the bytes a recorded result denotes now -/
def Result.now (st : State) (r : Result) : Bytes :=
  match st.heap[r.id]? with
  | some b => (b.mem.drop r.off).take r.bytes.length
  | none => []

end SonicSpec.Own
