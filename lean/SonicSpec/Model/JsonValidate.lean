/-
  Core A, recogniser part (property C02): a transliteration of the native validating state machine
  `fsm_exec_1` (/repo/native/scanning.h:1714-1876) with its entry points `validate_one`
  (/repo/native/validate_one.c) and `skip_one_1` (scanning.h:1883, the `F_NO_VALIDATE_JSON`-free branch),
  and of the scanners it calls.  The input cursor `*p` of the C code is represented by the list of bytes
  that are still unread; offsets are recovered as `length input - length rest`.

  What is kept from the C code:
    * the explicit frame stack with its seven frame kinds and the push that fails at `MAX_RECURSE`
      (here the parameter `B`; /repo/internal/native/types/types.go:75 says 4096);
    * `advance_ns`: space skipping, and a NUL byte in a structural position ends the scan as `eof`
      (scanning.h:1722);
    * literals compared as a whole (`advance_dword`, scanning.h:114): too short = eof, different = invalid;
    * `do_skip_number` (scanning.h:1025) with its three indices `di/ei/si`, the early return for a
      leading `0`, and the final `check_index` chain, byte for byte;
    * the two string scanners: `advance_string_default` (scanning.h:128: a backslash escapes the next
      byte, nothing else is looked at) and `advance_string_validate` (scanning.h:452: control characters
      are refused everywhere; escapes are validated by `advance_escape_validate` only in the scalar tail,
      i.e. in the last `len mod 32` bytes of the *input*, the 64/32-byte SIMD rounds before it only look
      for quotes, backslashes and control characters).
  What is abstracted: the SIMD rounds are described by what they compute on a block, one byte at a time
  (first unescaped quote, first control character, backslash carry into the next block); `do_skip_number`'s
  32/16-byte rounds likewise.  Machine code vs. this description is tied by the correspondence runs only.
  The uninitialised `ch` that `advance_string_default` tests when its scalar tail is empty (scanning.h:339)
  is NOT modelled: `strDefault` is the scanner the code means.  (DESIGN §8 #11: on the machine code an
  unterminated string is accepted when its body length is a positive multiple of 32.)
-/
import SonicSpec.Model.JsonGrammar
namespace SonicSpec.Json

/-- native error codes used by the skipper (types.go:83-89): ERR_EOF=1, ERR_INVALID_CHAR=2,
    ERR_RECURSE_EXCEED_MAX=7; `fuel` is the model's own "ran out of steps" and is proved unreachable -/
inductive Err where
  | eof | inval | recurse | fuel
deriving DecidableEq, Repr, Inhabited

/-- result of a scanner: the unread rest, or an error with the unread rest at the point of failure -/
inductive Res where
  | ok (rest : Bytes)
  | err (e : Err) (rest : Bytes)
deriving DecidableEq, Repr, Inhabited

/-- which string scanner the flags select (`advance_string`, scanning.h:698); `strict` is not a sonic
    mode: it is the scanner of the `Strict` grammar, used as the model's decision procedure for it -/
inductive StrMode where
  | dflt | validate | strict
deriving DecidableEq, Repr, Inhabited

/-! ### advance_ns (scanning.h:86) -/

/-- next non-space byte and what follows it; `none` at end of input and on a NUL byte (`ch == 0`) -/
def advanceNs (s : Bytes) : Option (UInt8 × Bytes) :=
  match skipWs s with
  | [] => none
  | c :: r => if c = 0 then none else some (c, r)

/-! ### literals: advance_dword (scanning.h:114) -/

/-- `pat` = the bytes expected after the first letter (`ull`, `rue`, `alse`) -/
def lit (pat : Bytes) (r : Bytes) : Res :=
  let t := r.take pat.length
  if t.length < pat.length then .err .eof []
  else if t = pat then .ok (r.drop pat.length)
  else .err .inval r

/-! ### numbers: do_skip_number (scanning.h:1025), skip_positive_1 (1261), skip_negative_1 (1232) -/

/-- `di`, `ei`, `si`: index of the decimal point, the exponent letter and the exponent sign; -1 = not seen -/
structure NumIdx where
  di : Int := -1
  ei : Int := -1
  si : Int := -1
deriving Repr

/-- the scanning loop (scalar form, scanning.h:1176-1195); `i = sp - ss`.
    `none` = a second `.`, exponent letter or sign (`check_sidx` failure) -/
def numLoop : Bytes → Int → NumIdx → Option (Int × NumIdx × Bytes)
  | [], i, x => some (i, x, [])
  | c :: r, i, x =>
    if isDigit c then numLoop r (i + 1) x
    else if c = 46 then (if x.di = -1 then numLoop r (i + 1) { x with di := i } else none)
    else if c = 101 ∨ c = 69 then (if x.ei = -1 then numLoop r (i + 1) { x with ei := i } else none)
    else if c = 43 ∨ c = 45 then (if x.si = -1 then numLoop r (i + 1) { x with si := i } else none)
    else some (i, x, c :: r)

/-- `check_index` (scanning.h:1196-1209); `n = sp - ss`; true = the number is fine -/
def numCheck (n : Int) (x : NumIdx) : Bool :=
  if x.di = 0 ∨ x.si = 0 ∨ x.ei = 0 then false
  else if x.di = n - 1 ∨ x.si = n - 1 ∨ x.ei = n - 1 then false
  else if x.si > 0 ∧ x.ei ≠ x.si - 1 then false
  else if x.di ≥ 0 ∧ x.ei ≥ 0 ∧ x.di > x.ei - 1 then false
  else if x.di ≥ 0 ∧ x.ei ≥ 0 ∧ x.di = x.ei - 1 then false
  else true

def isDotOrExp (c : UInt8) : Bool := c == 46 || c == 101 || c == 69

/-- scanning.h:1037: a leading `0` ends the number unless `.`, `e` or `E` follows -/
def zeroStop : Bytes → Bool
  | [] => true
  | d :: _ => !isDotOrExp d

/-- `do_skip_number`; the rest after the number, `none` for a negative return -/
def doSkipNumber : Bytes → Option Bytes
  | [] => none
  | c :: r =>
    if c = 48 ∧ zeroStop r = true then some r          -- special case of '0'
    else
      match numLoop (c :: r) 0 {} with
      | none => none
      | some (n, x, rest) => if numCheck n x = true then some rest else none

/-- `skip_positive_1`: the first digit `ch` has been consumed by `advance_ns` -/
def skipPositive (ch : UInt8) (r : Bytes) : Res :=
  match doSkipNumber (ch :: r) with
  | some rest => .ok rest
  | none => .err .inval r

/-- `skip_negative_1`: `-` consumed; a digit must follow -/
def skipNegative (r : Bytes) : Res :=
  match r with
  | [] => .err .inval []
  | c :: _ =>
    if isDigit c then
      match doSkipNumber r with
      | some rest => .ok rest
      | none => .err .inval r
    else .err .inval r

/-! ### strings -/

/-- `advance_string_default` (scanning.h:128) as the code means it: a backslash escapes the next byte,
    the first unescaped quote ends the string; every failure is `eof` -/
def strDefault : Bytes → Res
  | [] => .err .eof []
  | c :: r =>
    if c = 34 then .ok r
    else if c = 92 then
      match r with
      | [] => .err .eof []
      | _ :: r' => strDefault r'
    else strDefault r

def isCtl (c : UInt8) : Bool := c < 32

def hexNat (c : UInt8) : Nat := match hexVal c with | some v => v.toNat | none => 0

def unhex16 (a b c d : UInt8) : Nat := ((hexNat a * 16 + hexNat b) * 16 + hexNat c) * 16 + hexNat d

/-- `advance_escape_validate` (scanning.h:386): the bytes after a backslash; answers how many of them
    belong to the escape sequence -/
def escLen : Bytes → Except Err Nat
  | [] => .error .eof
  | c :: r =>
    if isSimpleEsc c then .ok 1
    else if c = 117 then
      match r with
      | h1 :: h2 :: h3 :: h4 :: r4 =>
        if isHex h1 && isHex h2 && isHex h3 && isHex h4 then
          let cp := unhex16 h1 h2 h3 h4
          if 0xD800 ≤ cp ∧ cp ≤ 0xDBFF then
            match r4 with
            | 92 :: 117 :: g1 :: g2 :: g3 :: g4 :: _ =>
              if isHex g1 && isHex g2 && isHex g3 && isHex g4 then
                let cp2 := unhex16 g1 g2 g3 g4
                if 0xDC00 ≤ cp2 ∧ cp2 ≤ 0xDFFF then .ok 11 else .ok 5
              else .ok 5
            | _ => .ok 5
          else .ok 5
        else .error .inval
      | _ => .error .eof          -- nb < 5
    else .error .inval

/-- scalar tail of `advance_string_validate` (scanning.h:654-690); `skip` = bytes of an already
    validated escape sequence still to step over -/
def strValTail : Nat → Bytes → Res
  | _, [] => .err .eof []
  | skip + 1, _ :: r => strValTail skip r
  | 0, c :: r =>
    if c = 34 then .ok r
    else if c = 92 then
      match r with
      | [] => .err .eof []                      -- nb == 1
      | _ :: _ => match escLen r with
        | .ok k => strValTail k r
        | .error e => .err e (c :: r)
    else if isCtl c then .err .inval (c :: r)
    else strValTail 0 r

/-- the 64-byte and 32-byte rounds of `advance_string_validate` (scanning.h:514-641), one byte at a
    time: `n` bytes are still covered by whole blocks, `esc` = the previous byte was an unescaped
    backslash (`cr`).  A round stops at the first unescaped quote unless a control character comes
    before it; without a quote any control character is an error; escapes are not inspected. -/
def strValBlocks : Nat → Bool → Bytes → Res
  | 0, esc, s =>
    if esc then                                 -- scanning.h:644 "check for carry"
      match s with
      | [] => .err .eof []
      | _ :: r => strValTail 0 r
    else strValTail 0 s
  | _ + 1, _, [] => .err .eof []
  | n + 1, true, c :: r => if isCtl c then .err .inval (c :: r) else strValBlocks n false r
  | n + 1, false, c :: r =>
    if c = 34 then .ok r
    else if isCtl c then .err .inval (c :: r)
    else strValBlocks n (c == 92) r

/-- `advance_string_validate`: all but the last `len mod 32` bytes of the input are scanned in blocks -/
def strValidate (s : Bytes) : Res :=
  strValBlocks (s.length - s.length % 32) false s

/-- the scanner of the `Strict` grammar (model only): `scanString` of the shared tree model says the same -/
def strStrict : Bytes → Res
  | [] => .err .eof []
  | c :: r =>
    if c = 34 then .ok r
    else if c = 92 then
      match r with
      | [] => .err .eof []
      | e :: r1 =>
        if isSimpleEsc e then strStrict r1
        else if e = 117 then
          match r1 with
          | h1 :: h2 :: h3 :: h4 :: r5 =>
            if isHex h1 && isHex h2 && isHex h3 && isHex h4 then strStrict r5 else .err .inval (c :: r)
          | _ => .err .eof []
        else .err .inval (c :: r)
    else if isCtl c then .err .inval (c :: r)
    else strStrict r

/-- `skip_string_1` → `advance_string` (scanning.h:1216, 698); input = bytes after the opening quote -/
def scanStr (m : StrMode) (s : Bytes) : Res :=
  match m with
  | .dflt => strDefault s
  | .validate => strValidate s
  | .strict => strStrict s

/-! ### the state machine -/

/-- FSM_VAL .. FSM_OBJ_0 (scanning.h:1686-1692) -/
inductive Frame where
  | val | arr | obj | key | elem | arr0 | obj0
deriving DecidableEq, Repr, Inhabited

/-- one turn of the `while (self->sp)` loop: the new stack (`vt[0..sp)`, top first), the new `sp` and the
    unread rest, or the error returned -/
inductive Step where
  | next (st : List Frame) (sp : Nat) (rest : Bytes)
  | fail (e : Err) (rest : Bytes)
deriving Repr

def Step.ofRes (st : List Frame) (sp : Nat) : Res → Step
  | .ok r => .next st sp r
  | .err e p => .fail e p

/-- the `switch (ch)` for simple values (scanning.h:1816-1871); `st`, `sp` = the stack at that point
    (`fsm_push` fails when `sp >= MAX_RECURSE`, scanning.h:1706).  The machine keeps `sp` next to the
    frames exactly as `StateMachine{sp, vt}` does; `sp = length st` is an invariant (`Proofs/JsonFsm`). -/
def value (B : Nat) (m : StrMode) (st : List Frame) (sp : Nat) (ch : UInt8) (r : Bytes) : Step :=
  if isDigit ch then .ofRes st sp (skipPositive ch r)
  else if ch = 45 then .ofRes st sp (skipNegative r)
  else if ch = 110 then .ofRes st sp (lit [117, 108, 108] r)
  else if ch = 116 then .ofRes st sp (lit [114, 117, 101] r)
  else if ch = 102 then .ofRes st sp (lit [97, 108, 115, 101] r)
  else if ch = 91 then (if sp < B then .next (.arr0 :: st) (sp + 1) r else .fail .recurse r)
  else if ch = 123 then (if sp < B then .next (.obj0 :: st) (sp + 1) r else .fail .recurse r)
  else if ch = 34 then .ofRes st sp (scanStr m r)
  else .fail .inval r

/-- the body of the loop (scanning.h:1720-1872) for a non-empty stack `f :: st`, `sp = length st` being
    the number of frames *below* the top one -/
def step (B : Nat) (m : StrMode) (f : Frame) (st : List Frame) (sp : Nat) (s : Bytes) : Step :=
  match advanceNs s with
  | none => .fail .eof []
  | some (ch, r) =>
    match f with
    | .val => value B m st sp ch r                                      -- default: FSM_DROP, break
    | .arr =>
      if ch = 93 then .next st sp r
      else if ch = 44 then (if sp + 1 < B then .next (.val :: .arr :: st) (sp + 2) r else .fail .recurse r)
      else .fail .inval r
    | .obj =>
      if ch = 125 then .next st sp r
      else if ch = 44 then (if sp + 1 < B then .next (.key :: .obj :: st) (sp + 2) r else .fail .recurse r)
      else .fail .inval r
    | .key =>
      if ch = 34 then .ofRes (.elem :: st) (sp + 1) (scanStr m r) else .fail .inval r
    | .elem =>
      if ch = 58 then .next (.val :: st) (sp + 1) r else .fail .inval r
    | .arr0 =>
      if ch = 93 then .next st sp r else value B m (.arr :: st) (sp + 1) ch r   -- FSM_REPL(ARR), break
    | .obj0 =>
      if ch = 125 then .next st sp r
      else if ch = 34 then
        match scanStr m r with                                          -- FSM_REPL(OBJ), string, push ELEM
        | .ok r' => if sp + 1 < B then .next (.elem :: .obj :: st) (sp + 2) r' else .fail .recurse r'
        | .err e p => .fail e p
      else .fail .inval r

/-- `fsm_exec_1`: run until the stack is empty; `sp` = number of frames.  Every turn consumes at least
    one byte, so `length input + 1` turns always suffice (`skipOne_no_fuel`) -/
def run (B : Nat) (m : StrMode) : Nat → List Frame → Nat → Bytes → Res
  | _, [], _, s => .ok s
  | 0, _ :: _, _, s => .err .fuel s
  | n + 1, f :: st, sp, s =>
    match step B m f st (sp - 1) s with
    | .next st' sp' r => run B m n st' sp' r
    | .fail e p => .err e p

/-- `validate_one` / `skip_one` from the beginning of `s`: `fsm_init(FSM_VAL)` (sp = 1) then `fsm_exec` -/
def skipOne (B : Nat) (m : StrMode) (s : Bytes) : Res :=
  run B m (s.length + 1) [.val] 1 s

/-- MAX_RECURSE, /repo/internal/native/types/types.go:75 -/
def maxRecurse : Nat := 4096

/-- what the callers see: `ok start end` (offset of the first byte of the value = the C return value,
    offset after its last byte = `*p`), or the error kind and the offset where scanning stopped -/
inductive Result where
  | ok (start stop : Nat)
  | err (k : Err) (pos : Nat)
deriving DecidableEq, Repr, Inhabited

def validate (B : Nat) (m : StrMode) (s : Bytes) : Result :=
  match skipOne B m s with
  | .ok r => .ok (s.length - (skipWs s).length) (s.length - r.length)
  | .err e p => .err e (s.length - p.length)

/-! ### the Go wrappers -/

def allSpaceB (s : Bytes) : Bool := s.all isSpace

/-- `alg.Valid` (/repo/internal/encoder/alg/spec.go:37) = `sonic.Valid`, `sonic.ValidString`,
    `frozenConfig.Valid` (/repo/api.go:240, /repo/sonic.go:148): empty input is invalid, then
    `validate_one` with flags 0, then only space may follow -/
def validB (B : Nat) (s : Bytes) : Bool :=
  match s with
  | [] => false
  | _ =>
    match skipOne B .dflt s with
    | .ok r => allSpaceB r
    | .err _ _ => false

def Valid (s : Bytes) : Bool := validB maxRecurse s

/-- `Decoder.CheckTrailings` (/repo/internal/decoder/api/decoder.go:88) after a decoder that consumed
    one value with the skipper (json.RawMessage, json.Unmarshaler, *ast.Node, skipped members): the whole
    text is space, one value, space.  With `m = .strict` / `.dflt` and a budget larger than the text this is
    the model's decision procedure for the `Strict` / `Structural` grammar (`decide_strict`,
    `decide_structural` in Props/C02.lean). -/
def unmarshalSkipB (B : Nat) (m : StrMode) (s : Bytes) : Bool :=
  match skipOne B m s with
  | .ok r => allSpaceB r
  | .err _ _ => false

/-- `decoder.Skip` (/repo/internal/decoder/api/decoder.go:173): one value, the caller gets the offsets -/
def skipApi (s : Bytes) : Result := validate maxRecurse .dflt s

/-- `ast.NewRaw(s).Check()` (/repo/ast/node.go:1830, /repo/ast/api.go:52) and `sonic.Get(s)` with an empty
    path (/repo/native/get_by_path.c:12-16): `skip_one` and nothing after it - the rest is not looked at -/
def newRawB (s : Bytes) : Bool :=
  match skipOne maxRecurse .dflt s with
  | .ok _ => true
  | .err _ _ => false

end SonicSpec.Json
