/-
  Enc core, the Go fallbacks the interpreting encoder uses where no native routine exists
  (internal/encoder/alg/spec_compat.go), transliterated.  Core Lean only.

  * `Compat.quote`   spec_compat.go:44-124 `Quote(e, s, false)`.  The Go loop keeps two indexes
    `start ≤ i` into `s` and copies `s[start:i]` lazily; here `pend` is that pending slice and the
    list argument is `s[i:]`, so one step of the Lean loop is one iteration of the Go loop.
  * `Compat.i64toa`  spec_compat.go:142 -> strconv.AppendInt(buf, v, 10): strconv/itoa.go
    `small` fast path and `formatBits` (two digits per iteration from the `smallsString` table).
-/
import SonicSpec.Model.EncStr
namespace SonicSpec.Enc.Compat
open SonicSpec.Enc

/-- internal/rt/table.go SafeSet: printable ASCII except `"` and `\` -/
def safeSet (b : UInt8) : Bool := b ≥ 32 && b < 128 && b != 34 && b != 92

/-- `rt.Hex` = "0123456789abcdef" -/
def hexDigit (n : UInt8) : UInt8 := if n < 10 then 48 + n else 87 + n

/-- the `switch b` of spec_compat.go:73-91, after the backslash -/
def escTail (b : UInt8) : Bytes :=
  if b == 92 || b == 34 then [b]
  else if b == 10 then [110]
  else if b == 13 then [114]
  else if b == 9 then [116]
  else [117, 48, 48, hexDigit (b >>> 4), hexDigit (b &&& 15)]

/-- loop of spec_compat.go:58-115; `e` is the output so far, `pend` = `s[start:i]`, list = `s[i:]` -/
def quoteLoop : Nat → Bytes → Bytes → Bytes → Bytes
  | 0, _, pend, e => e ++ pend
  | _, [], pend, e => e ++ pend                                  -- :117 `if start < len(s) { e = append(e, s[start:]...) }`
  | f+1, b :: r, pend, e =>
    if b < 128 then
      if safeSet b then quoteLoop f r (pend ++ [b]) e            -- :60-63 i++
      else quoteLoop f r [] (e ++ pend ++ 92 :: escTail b)       -- :64-93 flush, escape, start = i
    else
      let n := seqLen (b :: r)
      let size := if n == 0 then 1 else n                         -- utf8.DecodeRuneInString: RuneError has size 1
      let seq := (b :: r).take size
      if seq == [226, 128, 168] || seq == [226, 128, 169] then   -- :105-113 c == ' ' || c == ' '
        quoteLoop f (r.drop (size - 1)) [] (e ++ pend ++ [92, 117, 50, 48, 50, hexDigit (seq.getLastD 0 &&& 15)])
      else quoteLoop f (r.drop (size - 1)) (pend ++ seq) e         -- :114 i += size

/-- `Quote(nil, s, false)` -/
def quote (s : Bytes) : Bytes :=
  if s.isEmpty then [34, 34]                                      -- :45-50
  else quoteLoop s.length s [] [34] ++ [34]

/-! ### strconv.AppendInt(_, v, 10) -/

/-- `smallsString[k]` : the two digits of `k / 2`, high digit at even `k` -/
def smalls (k : Nat) : UInt8 := if k % 2 == 0 then UInt8.ofNat (48 + k / 2 / 10) else UInt8.ofNat (48 + k / 2 % 10)

/-- `for us >= 100 { ... }` of formatBits, prepending into the scratch array -/
def pairsLoop : Nat → Nat → Bytes → Nat × Bytes
  | 0, us, a => (us, a)
  | f+1, us, a =>
    if us ≥ 100 then
      let is := us % 100 * 2
      pairsLoop f (us / 100) (smalls is :: smalls (is + 1) :: a)
    else (us, a)

def formatBits (u : Nat) (neg : Bool) : Bytes :=
  let u := if neg then (2 ^ 64 - u) % 2 ^ 64 else u              -- `u = -u` on uint64
  let (us, a) := pairsLoop 10 u []
  let is := us * 2
  let a := smalls (is + 1) :: a
  let a := if us ≥ 10 then smalls is :: a else a
  if neg then 45 :: a else a

/-- AppendInt for an int64 `v` (`v` is reduced to its two's-complement image first) -/
def i64toa (v : Int) : Bytes :=
  if 0 ≤ v && v < 100 then                                        -- fastSmalls
    let k := v.toNat
    if k < 10 then [UInt8.ofNat (48 + k)] else [smalls (k * 2), smalls (k * 2 + 1)]
  else formatBits (v % (2 ^ 64 : Int)).toNat (v < 0)

end SonicSpec.Enc.Compat
