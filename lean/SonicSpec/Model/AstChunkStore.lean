/-
  C15 - the child store of a loaded container, seen at the two levels:
  `StoreOp` are the store transitions `NodeM` performs (Model/AstNode.lean: `*p = node`, soft delete,
  Push, the Pop loop, MoveOne); `applyL` is what `NodeM` does to its plain list, `applyC` what
  ast/buffer.go + ast/node.go do to the chunked storage.  Proofs/AstChunkOps.lean: they agree on every
  sequence.  Core Lean only.
-/
import SonicSpec.Model.AstChunk
import SonicSpec.Model.AstNode
namespace SonicSpec.Ast

inductive StoreOp (α : Type) where
  | setAt (j : Nat) (v : α)     -- `*p = node`                       (SetByIndex, Set, child write-back)
  | kill (j : Nat)              -- `*p = Node{}` / `Pair{}`           (Unset, UnsetByIndex)
  | push (v : α)                -- `Push`                            (Add, Set of a new key, loading)
  | popLive                     -- the tail loop of `Node.Pop`        (Pop, UnsetByIndex(last))
  | move (dst src : Nat)        -- `MoveOne(src, dst)`               (Move)

namespace StoreOp
variable {α : Type}

/-- on the plain list: exactly the list functions used by `NodeM.stepHere` -/
def applyL (zero : α) (live : α → Bool) (l : List α) : StoreOp α → List α
  | .setAt j v => l.set j v
  | .kill j => l.set j zero
  | .push v => l ++ [v]
  | .popLive => (Ast.popLive live l).1
  | .move d s => moveElem l d s

/-- on the chunked storage -/
def applyC (c : Nat) (zero : α) (live : α → Bool) (s : Linked α) : StoreOp α → Linked α
  | .setAt j v => Linked.assign c s j v
  | .kill j => Linked.assign c s j zero
  | .push v => Linked.push c zero s v
  | .popLive => (Linked.popLoop c zero live s.size s).1
  | .move d sr => Linked.moveOne c s sr d

def runL (zero : α) (live : α → Bool) : List α → List (StoreOp α) → List α
  | l, [] => l
  | l, o :: os => runL zero live (applyL zero live l o) os

def runC (c : Nat) (zero : α) (live : α → Bool) : Linked α → List (StoreOp α) → Linked α
  | s, [] => s
  | s, o :: os => runC c zero live (applyC c zero live s o) os

end StoreOp
end SonicSpec.Ast
