/-
  Core D (shared part): the universe of Go types and values the typed codec models speak about,
  with the wire syntax of DESIGN.md Appendix A (s-expressions; see go/harness/types.go for the
  same grammar on the Go side).  Core Lean only.

    T ::= bool|i8|i16|i32|i64|int|u8|u16|u32|u64|uint|uptr|f32|f64|str|num|bytes|raw|any
        | (sl T) | (arr N T) | (ptr T) | (map K T) | (st F*) | (lib NAME)
    F ::= (f GoName TAGHEX T)          TAGHEX = hex of the json tag value, "-" = no tag
    V ::= t | f | (i N) | (u N) | (f64 HEX16) | (f32 HEX8) | (s HEX) | (num HEX) | (b HEX) | (raw HEX)
        | nil | (sl V*) | (arr V*) | (ptr V) | (map (K V)*) | (any T V) | (st V*) | (lib HEX)
-/
import SonicSpec.Model.Hex
namespace SonicSpec.Go

/-- s-expressions -/
inductive Sx where
  | atom (s : String)
  | list (xs : List Sx)
deriving Repr, Inhabited, BEq

def tokenize (s : String) : List String :=
  -- `flush` is a function so that it is evaluated only where a token ends (linear time)
  let flush (cur : List Char) (acc : List String) : List String :=
    if cur.isEmpty then acc else String.ofList cur.reverse :: acc
  let rec go (cs : List Char) (cur : List Char) (acc : List String) : List String :=
    match cs with
    | [] => (flush cur acc).reverse
    | c :: r =>
      if c == ' ' then go r [] (flush cur acc)
      else if c == '(' then go r [] ("(" :: flush cur acc)
      else if c == ')' then go r [] (")" :: flush cur acc)
      else go r (c :: cur) acc
  go s.toList [] []

mutual
def parseSxFuel : Nat → List String → Option (Sx × List String)
  | 0, _ => none
  | _, [] => none
  | n+1, t :: r =>
    if t == "(" then (parseSxList n r).map fun (xs, r') => (.list xs, r')
    else if t == ")" then none
    else some (.atom t, r)
def parseSxList : Nat → List String → Option (List Sx × List String)
  | 0, _ => none
  | _, [] => none
  | n+1, t :: r =>
    if t == ")" then some ([], r)
    else match parseSxFuel n (t :: r) with
      | none => none
      | some (x, r') => (parseSxList n r').map fun (xs, r'') => (x :: xs, r'')
end

def parseSx (s : String) : Option Sx :=
  let toks := tokenize s
  match parseSxFuel (toks.length + 1) toks with
  | some (x, []) => some x
  | _ => none

partial def Sx.toString : Sx → String
  | .atom s => s
  | .list xs => "(" ++ " ".intercalate (xs.map Sx.toString) ++ ")"

/-- Go types -/
inductive GoType where
  | bool
  | int (bits : Nat)        -- i8 i16 i32 i64 int(=64)
  | uint (bits : Nat)       -- u8 u16 u32 u64 uint uptr(=64)
  | f32 | f64
  | str | num               -- string, json.Number
  | bytes | raw             -- []byte, json.RawMessage
  | any                     -- interface{}
  | sl (t : GoType)
  | arr (n : Nat) (t : GoType)
  | ptr (t : GoType)
  | map (k : GoType) (t : GoType)
  | st (fields : List (String × Option Bytes × GoType))   -- Go name, json tag value (none = no tag), type
  | lib (name : String)
deriving Repr, Inhabited

/-- Go values (trees: no sharing, no cycles) -/
inductive GoVal where
  | bool (b : Bool)
  | int (n : Int)
  | uint (n : Nat)
  | f64 (bits : UInt64)
  | f32 (bits : UInt32)
  | str (b : Bytes)
  | num (b : Bytes)
  | bytes (b : Bytes)
  | raw (b : Bytes)
  | nil                                   -- nil pointer / slice / map / interface / []byte
  | sl (xs : List GoVal)
  | arr (xs : List GoVal)
  | ptr (v : GoVal)
  | map (kvs : List (GoVal × GoVal))
  | any (t : GoType) (v : GoVal)
  | st (vs : List GoVal)
  | lib (json : Bytes)                    -- library value, carried as JSON text
deriving Repr, Inhabited

def atomType : String → Option GoType
  | "bool" => some .bool
  | "i8" => some (.int 8) | "i16" => some (.int 16) | "i32" => some (.int 32) | "i64" => some (.int 64) | "int" => some (.int 64)
  | "u8" => some (.uint 8) | "u16" => some (.uint 16) | "u32" => some (.uint 32) | "u64" => some (.uint 64)
  | "uint" => some (.uint 64) | "uptr" => some (.uint 64)
  | "f32" => some .f32 | "f64" => some .f64
  | "str" => some .str | "num" => some .num | "bytes" => some .bytes | "raw" => some .raw | "any" => some .any
  | _ => none

mutual
def typeOfSx : Sx → Option GoType
  | .atom a => atomType a
  | .list [.atom "sl", t] => (typeOfSx t).map .sl
  | .list [.atom "arr", .atom n, t] => do let k ← n.toNat?; let t' ← typeOfSx t; pure (.arr k t')
  | .list [.atom "ptr", t] => (typeOfSx t).map .ptr
  | .list [.atom "map", k, t] => do let k' ← typeOfSx k; let t' ← typeOfSx t; pure (.map k' t')
  | .list [.atom "lib", .atom n] => some (.lib n)
  | .list (.atom "st" :: fs) => (fieldsOfSx fs).map .st
  | _ => none
def fieldsOfSx : List Sx → Option (List (String × Option Bytes × GoType))
  | [] => some []
  | .list [.atom "f", .atom name, .atom tag, t] :: r => do
      let t' ← typeOfSx t
      let tg ← if tag == "-" then some none else (unhex tag).map some
      let r' ← fieldsOfSx r
      pure ((name, tg, t') :: r')
  | _ => none
end

def parseType (s : String) : Option GoType := (parseSx s).bind typeOfSx

def hexNat (s : String) : Option Nat :=
  s.toList.foldl (fun acc c => do
    let a ← acc
    let d ← hexVal c.toNat.toUInt8
    pure (a * 16 + d.toNat)) (some 0)

mutual
def valOfSx : Sx → Option GoVal
  | .atom "t" => some (.bool true)
  | .atom "f" => some (.bool false)
  | .atom "nil" => some .nil
  | .list [.atom "i", .atom n] => n.toInt?.map .int
  | .list [.atom "u", .atom n] => n.toNat?.map .uint
  | .list [.atom "f64", .atom h] => (hexNat h).map fun n => .f64 n.toUInt64
  | .list [.atom "f32", .atom h] => (hexNat h).map fun n => .f32 n.toUInt32
  | .list [.atom "s", .atom h] => (unhexArg h).map .str
  | .list [.atom "num", .atom h] => (unhexArg h).map .num
  | .list [.atom "b", .atom h] => (unhexArg h).map .bytes
  | .list [.atom "raw", .atom h] => (unhexArg h).map .raw
  | .list [.atom "lib", .atom h] => (unhexArg h).map .lib
  | .list [.atom "ptr", v] => (valOfSx v).map .ptr
  | .list [.atom "any", t, v] => do let t' ← typeOfSx t; let v' ← valOfSx v; pure (.any t' v')
  | .list (.atom "sl" :: vs) => (valsOfSx vs).map .sl
  | .list (.atom "arr" :: vs) => (valsOfSx vs).map .arr
  | .list (.atom "st" :: vs) => (valsOfSx vs).map .st
  | .list (.atom "map" :: es) => (entriesOfSx es).map .map
  | _ => none
def valsOfSx : List Sx → Option (List GoVal)
  | [] => some []
  | v :: r => do let v' ← valOfSx v; let r' ← valsOfSx r; pure (v' :: r')
def entriesOfSx : List Sx → Option (List (GoVal × GoVal))
  | [] => some []
  | .list [k, v] :: r => do let k' ← valOfSx k; let v' ← valOfSx v; let r' ← entriesOfSx r; pure ((k', v') :: r')
  | _ => none
end

def parseVal (s : String) : Option GoVal := (parseSx s).bind valOfSx

def hexFixed (width : Nat) (n : Nat) : String :=
  let rec go : Nat → Nat → List Char → List Char
    | 0, _, acc => acc
    | w+1, m, acc => go w (m / 16) (hexDigit (m % 16).toUInt8 :: acc)
  String.ofList (go width n [])

/-- print a type back (used inside `(any T V)`) -/
partial def typeToString : GoType → String
  | .bool => "bool"
  | .int 8 => "i8" | .int 16 => "i16" | .int 32 => "i32" | .int _ => "i64"
  | .uint 8 => "u8" | .uint 16 => "u16" | .uint 32 => "u32" | .uint _ => "u64"
  | .f32 => "f32" | .f64 => "f64" | .str => "str" | .num => "num" | .bytes => "bytes" | .raw => "raw" | .any => "any"
  | .sl t => s!"(sl {typeToString t})"
  | .arr n t => s!"(arr {n} {typeToString t})"
  | .ptr t => s!"(ptr {typeToString t})"
  | .map k t => s!"(map {typeToString k} {typeToString t})"
  | .lib n => s!"(lib {n})"
  | .st fs => "(st" ++ String.join (fs.map fun (n, tg, t) =>
      s!" (f {n} {match tg with | none => "-" | some b => hex b} {typeToString t})") ++ ")"

/-- canonical printing of a value, identical to go/harness dumpValue (map entries must already be in
    canonical order: sorted by the printed entry text) -/
partial def valToString : GoVal → String
  | .bool true => "t"
  | .bool false => "f"
  | .int n => s!"(i {n})"
  | .uint n => s!"(u {n})"
  | .f64 b => s!"(f64 {hexFixed 16 b.toNat})"
  | .f32 b => s!"(f32 {hexFixed 8 b.toNat})"
  | .str b => s!"(s {hexArg b})"
  | .num b => s!"(num {hexArg b})"
  | .bytes b => s!"(b {hexArg b})"
  | .raw b => s!"(raw {hexArg b})"
  | .nil => "nil"
  | .sl xs => "(" ++ " ".intercalate ("sl" :: xs.map valToString) ++ ")"
  | .arr xs => "(" ++ " ".intercalate ("arr" :: xs.map valToString) ++ ")"
  | .ptr v => s!"(ptr {valToString v})"
  | .map kvs =>
    let es := kvs.map fun (k, v) => s!"({valToString k} {valToString v})"
    let sorted := (es.toArray.qsort (· < ·)).toList
    "(" ++ " ".intercalate ("map" :: sorted) ++ ")"
  | .any t v => s!"(any {typeToString t} {valToString v})"
  | .st vs => "(" ++ " ".intercalate ("st" :: vs.map valToString) ++ ")"
  | .lib j => s!"(lib {hexArg j})"

/-- the zero value of a type (what `new(T)` holds before decoding) -/
partial def zero : GoType → GoVal
  | .bool => .bool false
  | .int _ => .int 0
  | .uint _ => .uint 0
  | .f32 => .f32 0
  | .f64 => .f64 0
  | .str => .str []
  | .num => .num []
  | .bytes | .raw | .any | .sl _ | .ptr _ | .map _ _ => .nil
  | .arr n t => .arr (List.replicate n (zero t))
  | .st fs => .st (fs.map fun (_, _, t) => zero t)
  | .lib _ => .lib []

end SonicSpec.Go
