/-
  Enc core, second voice: an executable SPECIFICATION OF encoding/json's Marshal (Go 1.23, the
  toolchain the repository is built with), written from encoding/json's own rules and in its own
  architecture - bytes are appended to a buffer as `encodeState` does, there is no intermediate tree:

    * `appendString`      encode.go:967  the string writer: index loop with a lazily copied pending slice,
                          tables.go `safeSet` / `htmlSafeSet`, \b \f \n \r \t, \u00XX, U+2028/9, U+FFFD
    * `isEmptyValue`      encode.go:307  by reflect.Kind
    * `typeFields`        encode.go:1105 for structs without embedded fields: tag "-", name from the tag when
                          `isValidTag`, options, `,string` only on scalar kinds; dominance by the documented rule
                          (encode.go Marshal doc: exactly one field of a name, or exactly one tagged one)
    * struct / slice / map writers with the `next` / `i > 0` comma logic of structEncoder / arrayEncoder /
      mapEncoder; map entries are sorted by resolved key text (`slices.SortFunc ... strings.Compare`)
    * `compact`           indent.go: Marshaler output with insignificant white space removed and, with
                          escapeHTML, `<` `>` `&` U+2028 U+2029 inside it escaped
    * numbers             integers through core C's `Num.itoa`, floats through core C's `Num.fmtF64/32`,
                          json.Number through a transliteration of `isValidNumber` (encode.go:645)
    * `omitzero`          is NOT honoured: encoding/json learnt it in Go 1.24, the repository builds with 1.23.5
                          (so this is the reference the harness actually runs); `Enc.encode` follows Go 1.24

  Shared with the Enc model on purpose (they are the project's single definitions): the tag grammar
  (`Enc.fieldOf`: splitting at commas and `isValidTag` on the carried alphabet), the UTF-8 decoding step
  (`Enc.seqLen` = size and validity of `utf8.DecodeRune`), the strict JSON grammar (`Json.parseDoc` as
  "valid JSON"), the float formatter of core C, and the Go declarations of the library types.
  Core Lean only.
-/
import SonicSpec.Model.Enc
namespace SonicSpec.EncStd
open SonicSpec SonicSpec.Go SonicSpec.Json SonicSpec.Enc

/-! ### encode.go appendString -/

/-- tables.go safeSet: printable ASCII except `"` and `\` -/
def safeSet (b : UInt8) : Bool := b ≥ 32 && b < 128 && b != 34 && b != 92

/-- tables.go htmlSafeSet: safeSet without `<` `>` `&` -/
def htmlSafeSet (b : UInt8) : Bool := safeSet b && b != 60 && b != 62 && b != 38

/-- `hex[n]`, hex = "0123456789abcdef" -/
def hexd (n : UInt8) : UInt8 := if n < 10 then 48 + n else 87 + n

/-- the `switch b` of encode.go:977-997 (the backslash included) -/
def escByte (b : UInt8) : Bytes :=
  if b == 92 || b == 34 then [92, b]
  else if b == 8 then [92, 98]
  else if b == 12 then [92, 102]
  else if b == 10 then [92, 110]
  else if b == 13 then [92, 114]
  else if b == 9 then [92, 116]
  else [92, 117, 48, 48, hexd (b >>> 4), hexd (b &&& 15)]

/-- the loop of encode.go:970-1033.  The Go loop keeps `start ≤ i` and copies `src[start:i]` lazily; here
    `pendR` is that pending slice (reversed, so that one more byte is O(1)), the list is `src[i:]`, and what the
    function returns is everything appended to `dst` from this point on; one step = one iteration -/
def appendLoop (html : Bool) : Nat → Bytes → Bytes → Bytes
  | 0, _, pendR => pendR.reverse
  | _, [], pendR => pendR.reverse                                   -- :1034 dst = append(dst, src[start:]...)
  | f+1, b :: r, pendR =>
    if b < 128 then
      if htmlSafeSet b || (!html && safeSet b) then appendLoop html f r (b :: pendR)             -- :972 i++
      else pendR.reverse ++ escByte b ++ appendLoop html f r []                                   -- :976-1000
    else
      let n := seqLen (b :: r)
      if n == 0 then pendR.reverse ++ [92, 117, 102, 102, 102, 100] ++ appendLoop html f r []    -- :1011 RuneError, size 1
      else
        let seq := (b :: r).take n
        if seq == [226, 128, 168] || seq == [226, 128, 169] then                                  -- :1025 U+2028 / U+2029
          pendR.reverse ++ [92, 117, 50, 48, 50, hexd (seq.getLastD 0 &&& 15)] ++ appendLoop html f (r.drop (n - 1)) []
        else appendLoop html f (r.drop (n - 1)) (seq.reverse ++ pendR)                          -- :1032 i += size

/-- `appendString(nil, s, escapeHTML)` -/
def appendString (html : Bool) (s : Bytes) : Bytes := 34 :: (appendLoop html s.length s [] ++ [34])

/-! ### numbers -/

def isDig (c : UInt8) : Bool := c ≥ 48 && c ≤ 57

def skipDigits : Bytes → Bytes
  | c :: r => if isDig c then skipDigits r else c :: r
  | [] => []

/-- encode.go:645 isValidNumber, statement by statement -/
def isValidNumber (s : Bytes) : Bool :=
  match s with
  | [] => false
  | _ =>
    -- optional -
    let s1 : Option Bytes := match s with
      | 45 :: r => if r.isEmpty then none else some r
      | _ => some s
    match s1 with
    | none => false
    | some s1 =>
      -- digits
      let s2 : Option Bytes := match s1 with
        | 48 :: r => some r
        | c :: r => if c ≥ 49 && c ≤ 57 then some (skipDigits r) else none
        | [] => none
      match s2 with
      | none => false
      | some s2 =>
        -- . followed by 1 or more digits
        let s3 : Bytes := match s2 with
          | 46 :: d :: r => if isDig d then skipDigits r else s2
          | _ => s2
        -- e or E followed by an optional - or + and 1 or more digits
        let s4 : Option Bytes := match s3 with
          | e :: x :: r =>
            if e == 101 || e == 69 then
              if x == 43 || x == 45 then (if r.isEmpty then none else some (skipDigits r))
              else some (skipDigits (x :: r))
            else some s3
          | _ => some s3
        match s4 with
        | none => false
        | some s4 => s4.isEmpty

/-! ### base64 (encoding/base64 StdEncoding.Encode) -/

def alphabet : Bytes :=
  [65, 66, 67, 68, 69, 70, 71, 72, 73, 74, 75, 76, 77, 78, 79, 80, 81, 82, 83, 84, 85, 86, 87, 88, 89, 90,
   97, 98, 99, 100, 101, 102, 103, 104, 105, 106, 107, 108, 109, 110, 111, 112, 113, 114, 115, 116, 117, 118, 119, 120, 121, 122,
   48, 49, 50, 51, 52, 53, 54, 55, 56, 57, 43, 47]

def enc64 (i : Nat) : UInt8 := alphabet.getD (i % 64) 0

def base64 : Bytes → Bytes
  | a :: b :: c :: r =>
    let val := a.toNat * 65536 + b.toNat * 256 + c.toNat             -- uint(src[si])<<16 | uint(src[si+1])<<8 | uint(src[si+2])
    enc64 (val / 262144) :: enc64 (val / 4096) :: enc64 (val / 64) :: enc64 val :: base64 r
  | [a, b] =>
    let val := a.toNat * 65536 + b.toNat * 256
    [enc64 (val / 262144), enc64 (val / 4096), enc64 (val / 64), 61]
  | [a] =>
    let val := a.toNat * 65536
    [enc64 (val / 262144), enc64 (val / 4096), 61, 61]
  | [] => []

/-! ### indent.go compact -/

/-- remove insignificant white space; inside strings, with `html`, escape `<` `>` `&` and U+2028/U+2029.
    `inStr` / `esc`: inside a string literal / right after a backslash -/
def peek2028 : Bytes → Option UInt8
  | 128 :: x :: _ => if x == 168 || x == 169 then some x else none
  | _ => none

def compactLoop (html : Bool) : Nat → Bool → Bool → Bytes → Bytes
  | _, _, _, [] => []
  | skip+1, inStr, esc, _ :: r => compactLoop html skip inStr esc r        -- bytes already replaced by an escape
  | 0, true, true, c :: r => c :: compactLoop html 0 true false r
  | 0, true, false, c :: r =>
    if c == 92 then c :: compactLoop html 0 true true r
    else if c == 34 then c :: compactLoop html 0 false false r
    else if html && (c == 60 || c == 62 || c == 38) then [92, 117, 48, 48, hexd (c >>> 4), hexd (c &&& 15)] ++ compactLoop html 0 true false r
    else if html && c == 226 then
      match peek2028 r with
      | some x => [92, 117, 50, 48, 50, hexd (x &&& 15)] ++ compactLoop html 2 true false r
      | none => c :: compactLoop html 0 true false r
    else c :: compactLoop html 0 true false r
  | 0, false, _, c :: r =>
    if c == 32 || c == 9 || c == 10 || c == 13 then compactLoop html 0 false false r
    else if c == 34 then c :: compactLoop html 0 true false r
    else c :: compactLoop html 0 false false r

/-- marshalerEncoder (encode.go:460): the text must be valid JSON, then it is compacted -/
def marshalerText (html : Bool) (m : Bytes) : Except EErr Bytes :=
  if (parseDoc m).isSome then .ok (compactLoop html 0 false false m) else .error .marshaler

/-! ### encode.go isEmptyValue (by reflect.Kind of the static type) -/

def isEmptyValue : GoType → GoVal → Bool
  | .bool, .bool b => b == false
  | .int _, .int n => n == 0
  | .uint _, .uint n => n == 0
  | .f64, .f64 b => b.toNat % 2 ^ 63 == 0                         -- v.Float() == 0: both zeros
  | .f32, .f32 b => b.toNat % 2 ^ 31 == 0
  | .str, .str s => s.length == 0
  | .num, .num s => s.length == 0                                  -- json.Number is of kind String
  | .bytes, .nil | .raw, .nil | .sl _, .nil | .map _ _, .nil | .ptr _, .nil | .any, .nil => true
  | .bytes, .bytes b => b.length == 0
  | .raw, .raw b => b.length == 0
  | .sl _, .sl xs => xs.length == 0
  | .arr _ _, .arr xs => xs.length == 0
  | .map _ _, .map kvs => kvs.length == 0
  | _, _ => false                                                  -- structs, non-nil pointers and interfaces

/-! ### typeFields for structs without embedded fields -/

structure SField where
  name : Bytes
  tagged : Bool
  omitEmpty : Bool
  quoted : Bool
  typ : GoType

/-- one declared field: tag grammar shared with the Enc model (`Enc.fieldOf`), `omitzero` dropped (Go 1.23) -/
def sfieldOf (goName : String) (tag : Option Bytes) (t : GoType) : Option (Option SField) :=
  (fieldOf goName tag t).map fun g => g.map fun f => ⟨f.name, f.tagged, f.omitEmpty, f.quoted, f.typ⟩

def sfieldsOf : List (String × Option Bytes × GoType) → Option (List (Option SField))
  | [] => some []
  | (n, tg, t) :: r =>
    match sfieldOf n tg t, sfieldsOf r with
    | some f, some fs => some (f :: fs)
    | _, _ => none

/-- number of declared (not "-") fields with this name, and how many of them are tagged -/
def countName (name : Bytes) : List (Option SField) → Nat × Nat
  | [] => (0, 0)
  | none :: r => countName name r
  | some g :: r =>
    let c := countName name r
    if g.name == name then (c.1 + 1, if g.tagged then c.2 + 1 else c.2) else c

/-- the Go rule for fields of one level: the field survives when it is the only one of its name, or when
    it is tagged and the only tagged one of its name -/
def survives (all : List (Option SField)) (f : SField) : Bool :=
  let c := countName f.name all
  c.1 == 1 || (f.tagged && c.2 == 1)

def typeFields (fs : List (String × Option Bytes × GoType)) : Option (List (Option SField)) :=
  (sfieldsOf fs).map fun all => all.map fun g =>
    match g with
    | some f => if survives all f then some f else none
    | none => none

/-! ### the encoders -/

def nullText : Bytes := [110, 117, 108, 108]

def floatText (lit : Option Bytes) : Except EErr Bytes :=
  match lit with
  | some l => .ok l
  | none => .error .unsupportedValue                                -- floatEncoder: UnsupportedValueError

def numberText (s : Bytes) : Except EErr Bytes :=
  if s.length == 0 then .ok [48]                                     -- encode.go:634 numStr = "0"
  else if isValidNumber s then .ok s else .error .unsupportedValue

def quoteWrap (b : Bytes) : Bytes := 34 :: (b ++ [34])

/-- a `,string` scalar (the `opts.quoted` branches of boolEncoder, intEncoder, uintEncoder, floatEncoder, stringEncoder) -/
def quotedScalar (html : Bool) : GoType → GoVal → Except EErr Bytes
  | .bool, .bool b => .ok (quoteWrap (if b then [116, 114, 117, 101] else [102, 97, 108, 115, 101]))
  | .int _, .int n => .ok (quoteWrap (Num.itoa n))
  | .uint _, .uint n => .ok (quoteWrap (Num.natDigits n))
  | .f64, .f64 b => (floatText (Num.fmtF64 b)).map quoteWrap
  | .f32, .f32 b => (floatText (Num.fmtF32 b)).map quoteWrap
  | .num, .num s => (numberText s).map quoteWrap
  | .str, .str s => .ok (appendString false (appendString html s))   -- encode.go:624-626
  | _, _ => .error .illTyped

/-- ptrEncoder passes `quoted` on: a nil pointer is null, else the pointee -/
def quotedField (html : Bool) : GoType → GoVal → Except EErr Bytes
  | .ptr _, .nil => .ok nullText
  | .ptr t, .ptr w => quotedScalar html t w
  | t, w => quotedScalar html t w

/-- resolveKeyName (encode.go:947) -/
def resolveKeyName : GoType → GoVal → Option Bytes
  | .str, .str s => some s
  | .lib "TV", .st [.int n] => some ([116, 118] ++ Num.itoa n)          -- TV.MarshalText
  | .lib "LT", .lib t => some t                                         -- LT.MarshalText
  | .int _, .int n => some (Num.itoa n)
  | .uint _, .uint n => some (Num.natDigits n)
  | _, _ => none

/-- newMapEncoder (encode.go:778): string, integer kinds, or a TextMarshaler -/
def mapKeyOK : GoType → Bool
  | .str | .int _ | .uint _ => true
  | .lib "TV" | .lib "LT" => true
  | _ => false

def keyLE (a b : Bytes × Bytes) : Bool := bytesLe a.1 b.1

/-- the sorted entries written out (mapEncoder.encode, encode.go:766-773) -/
def writeEntries (html : Bool) : Bool → List (Bytes × Bytes) → Bytes
  | _, [] => []
  | first, (k, v) :: r => (if first then [] else [44]) ++ appendString html k ++ [58] ++ v ++ writeEntries html false r

def allU8 : List GoVal → Option Bytes
  | [] => some []
  | .uint n :: r => (allU8 r).map (UInt8.ofNat n :: ·)
  | _ => none

mutual
/-- `e.reflectValue(v, opts)`; `addr` = `v.CanAddr()` -/
def encValue (html : Bool) (addr : Bool) : GoType → GoVal → Except EErr Bytes
  | .bool, .bool b => .ok (if b then [116, 114, 117, 101] else [102, 97, 108, 115, 101])
  | .int _, .int n => .ok (Num.itoa n)
  | .uint _, .uint n => .ok (Num.natDigits n)
  | .f64, .f64 b => floatText (Num.fmtF64 b)
  | .f32, .f32 b => floatText (Num.fmtF32 b)
  | .str, .str s => .ok (appendString html s)
  | .num, .num s => numberText s
  | .bytes, .nil => .ok nullText                                     -- encodeByteSlice
  | .bytes, .bytes b => .ok (quoteWrap (base64 b))
  | .raw, .nil => marshalerText html nullText                       -- RawMessage.MarshalJSON returns "null"
  | .raw, .raw b => marshalerText html b
  | .any, .nil => .ok nullText                                       -- interfaceEncoder
  | .any, .any t v => encValue html false t v
  | .ptr _, .nil => .ok nullText                                     -- ptrEncoder
  | .ptr t, .ptr v => encValue html true t v
  | .sl _, .nil => .ok nullText                                      -- sliceEncoder
  | .sl (.uint 8), .sl xs =>
    match allU8 xs with
    | some b => .ok (quoteWrap (base64 b))
    | none => .error .illTyped
  | .sl t, .sl xs => (encElems html true t true xs).map fun b => 91 :: (b ++ [93])
  | .arr n t, .arr xs =>
    if xs.length == n then (encElems html addr t true xs).map fun b => 91 :: (b ++ [93]) else .error .illTyped
  | .map k t, v =>
    if mapKeyOK k then
      match v with
      | .nil => .ok nullText
      | .map kvs =>
        (encEntries html k t kvs).map fun es => 123 :: (writeEntries html true (es.mergeSort keyLE) ++ [125])
      | _ => .error .illTyped
    else .error .unsupportedType                                       -- unsupportedTypeEncoder, whatever the value
  | .st fs, .st vs =>
    match typeFields fs with
    | some sf =>
      if sf.length == vs.length then (encFields html addr sf vs 123).map fun bn => if bn.2 == 123 then [123, 125] else bn.1 ++ [125]
      else .error .illTyped
    | none => .error .outside
  -- library types of the harness (go/harness/types.go, ops_enc.go): their methods, transcribed
  | .lib "MV", .st [.int n] => marshalerText html ([123, 34, 109, 118, 34, 58] ++ Num.itoa n ++ [125])
  | .lib "MP", .st [.int n] =>
    if addr then marshalerText html ([123, 34, 109, 112, 34, 58] ++ Num.itoa n ++ [125])
    else .ok ([123, 34, 86, 34, 58] ++ Num.itoa n ++ [125])
  | .lib "TV", .st [.int n] => .ok (appendString html ([116, 118] ++ Num.itoa n))
  | .lib "TP", .st [.int n] =>
    if addr then .ok (appendString html ([116, 112] ++ Num.itoa n))
    else .ok ([123, 34, 86, 34, 58] ++ Num.itoa n ++ [125])
  | .lib "LJ", .lib m => marshalerText html m
  | .lib "LJP", .lib m =>
    if addr then marshalerText html m
    else .ok ([123, 34, 66, 34, 58] ++ quoteWrap (base64 m) ++ [125])
  | .lib "LT", .lib t => .ok (appendString html t)
  | .lib name, .st vs =>
    match libStruct name with
    | some fs =>
      match typeFields fs with
      | some sf =>
        if sf.length == vs.length then (encFields html addr sf vs 123).map fun bn => if bn.2 == 123 then [123, 125] else bn.1 ++ [125]
        else .error .illTyped
      | none => .error .outside
    | none => .error .outside
  | _, _ => .error .illTyped

/-- arrayEncoder.encode: `for i := 0; i < n; i++ { if i > 0 { e.WriteByte(',') }; elemEnc(...) }` -/
def encElems (html : Bool) (addr : Bool) (t : GoType) : Bool → List GoVal → Except EErr Bytes
  | _, [] => .ok []
  | first, x :: xs => do
    let a ← encValue html addr t x
    let b ← encElems html addr t false xs
    pure ((if first then [] else [44]) ++ a ++ b)

/-- key text and encoded value of every entry (values of a map are not addressable) -/
def encEntries (html : Bool) (k t : GoType) : List (GoVal × GoVal) → Except EErr (List (Bytes × Bytes))
  | [] => .ok []
  | (a, b) :: r =>
    match resolveKeyName k a with
    | none => .error .illTyped
    | some ks => do
      let vb ← encValue html false t b
      let rs ← encEntries html k t r
      pure ((ks, vb) :: rs)

/-- structEncoder.encode: `next := byte('{')`; per field: skip if omitted, write `next`, `next = ','`, the
    name, the value; returns what was written and the final `next` -/
def encFields (html : Bool) (addr : Bool) : List (Option SField) → List GoVal → UInt8 → Except EErr (Bytes × UInt8)
  | none :: fs, _ :: vs, next => encFields html addr fs vs next
  | some f :: fs, v :: vs, next =>
    if f.omitEmpty && isEmptyValue f.typ v then encFields html addr fs vs next
    else do
      let val ← if f.quoted then quotedField html f.typ v else encValue html addr f.typ v
      let rest ← encFields html addr fs vs 44
      pure ([next] ++ appendString html f.name ++ [58] ++ val ++ rest.1, rest.2)
  | _, _, next => .ok ([], next)
end

/-- `json.Marshal(v)` with `SetEscapeHTML(html)`: the value handed over lives in an interface, it is not addressable -/
def marshal (html : Bool) (T : GoType) (v : GoVal) : Except EErr Bytes := encValue html false T v

end SonicSpec.EncStd
