/-
  C14: the read-only views of a located value (what `Raw`, the typed accessors,
  `Interface/Map/Array`, the iterators and the documented `Node.Index` return), as functions of
  the located subtree, plus the canonical text the correspondence compares.  Core Lean only.
-/
import SonicSpec.Model.Search
import SonicSpec.Model.Num
namespace SonicSpec.Search
open SonicSpec SonicSpec.Json

/-! ## views -/

/-- `Node.Type()` (ast/node.go:88): V_NULL=2 V_TRUE=3 V_FALSE=4 V_ARRAY=5 V_OBJECT=6 V_STRING=7 V_NUMBER=33 -/
def typeOf : JVal → Nat
  | .null => 2
  | .bool true => 3
  | .bool false => 4
  | .arr _ => 5
  | .obj _ => 6
  | .str _ => 7
  | .num _ => 33

/-- `StrictString`: the decoded text of a string value -/
def strView : JVal → Option Bytes
  | .str b => some (unescapeKey b)
  | _ => none

/-- `StrictNumber`: the literal of a number value -/
def numView : JVal → Option Bytes
  | .num l => some l
  | _ => none

/-- `StrictBool` -/
def boolView : JVal → Option Bool
  | .bool b => some b
  | _ => none

def digitsVal : Bytes → Option Nat
  | [] => none
  | ds => ds.foldl (fun acc c => acc.bind fun a => if isDigit c then some (a * 10 + (c.toNat - 48)) else none) (some 0)

/-- `StrictInt64` (json.Number.Int64 = strconv.ParseInt(lit, 10, 64)): only integer literals in range -/
def int64Of (lit : Bytes) : Option Int :=
  match lit with
  | 45 :: ds => (digitsVal ds).bind fun n => if n ≤ 9223372036854775808 then some (-(n : Int)) else none
  | ds => (digitsVal ds).bind fun n => if n < 9223372036854775808 then some (n : Int) else none

def int64View : JVal → Option Int
  | .num l => int64Of l
  | _ => none

/-! ## the generic conversion: `Interface()` turns an object into a Go map (one entry per
    distinct decoded key, the last occurrence wins, no order) -/

def bytesLt : Bytes → Bytes → Bool
  | [], [] => false
  | [], _ :: _ => true
  | _ :: _, [] => false
  | a :: r, b :: t => a < b || (a == b && bytesLt r t)

/-- insert into a list sorted by key, replacing an equal key (later occurrence wins) -/
def mapInsert {α : Type} (k : Bytes) (v : α) : List (Bytes × α) → List (Bytes × α)
  | [] => [(k, v)]
  | (k', v') :: rest =>
    if k == k' then (k, v) :: rest
    else if bytesLt k k' then (k, v) :: (k', v') :: rest
    else (k', v') :: mapInsert k v rest

/-- generic value: what `InterfaceUseNumber()` yields, maps as sorted association lists -/
inductive GVal where
  | null
  | bool (b : Bool)
  | num (lit : Bytes)
  | str (s : Bytes)
  | arr (xs : List GVal)
  | map (kvs : List (Bytes × GVal))
deriving Repr, Inhabited

mutual
def toGeneric : JVal → GVal
  | .null => .null
  | .bool b => .bool b
  | .num l => .num l
  | .str b => .str (unescapeKey b)
  | .arr xs => .arr (toGenericList xs)
  | .obj kvs => .map (toGenericMap kvs [])
def toGenericList : List JVal → List GVal
  | [] => []
  | x :: xs => toGeneric x :: toGenericList xs
def toGenericMap : List (Bytes × JVal) → List (Bytes × GVal) → List (Bytes × GVal)
  | [], acc => acc
  | (k, v) :: kvs, acc => toGenericMap kvs (mapInsert (unescapeKey k) (toGeneric v) acc)
end

/-! ## the Node API as documented (ast/node.go:1034 `Index`: "node type CAN be either V_OBJECT
    or V_ARRAY" - on an object it returns the value of the i-th pair) -/

inductive NodeRes where
  | found (v : JVal)
  | notFound        -- nil node / ErrNotExist
  | wrongType       -- ErrUnsupportType
deriving Repr, Inhabited

/-- `Node.GetByPath` = chain of `Get` (objects only) and `Index` (arrays, and pairs of objects) -/
def locateNode (dupLast : Bool) : JVal → Path → NodeRes
  | v, [] => .found v
  | .obj kvs, .key k :: p =>
    -- `dupLast`: the hash index of a loaded object with more than 16 pairs (ast/buffer.go:198)
    -- maps a duplicated key to its last occurrence
    let kvs' := if dupLast && kvs.length > 16 then kvs.reverse else kvs
    match lookupKey k kvs' with
    | some w => locateNode dupLast w p
    | none => .notFound
  | .arr xs, .idx i :: p =>
    if i < 0 then .notFound
    else match xs[i.toNat]? with
      | some w => locateNode dupLast w p
      | none => .notFound
  | .obj kvs, .idx i :: p =>
    if i < 0 then .notFound
    else match kvs[i.toNat]? with
      | some (_, w) => locateNode dupLast w p
      | none => .notFound
  | _, _ :: _ => .wrongType

/-! ## canonical text (shared with go/harness/ops_search.go) -/

def hexs (b : Bytes) : String := hex b

def asciiStr (b : Bytes) : String := String.ofList (b.map fun c => Char.ofNat c.toNat)

def joinWith (sep : String) (xs : List String) : String :=
  -- left fold into one growing buffer (linear; wide containers have thousands of children)
  match xs with
  | [] => ""
  | x :: rest => rest.foldl (fun acc y => acc ++ sep ++ y) x

/-- canonical text of a generic value: `n t f #<literal> s<hex> [..,..] {<hexkey>:<v>,..}` -/
partial def canonG : GVal → String
  | .null => "n"
  | .bool true => "t"
  | .bool false => "f"
  | .num l => "#" ++ asciiStr l
  | .str s => "s" ++ hexs s
  | .arr xs => "[" ++ joinWith "," (xs.map canonG) ++ "]"
  | .map kvs => "{" ++ joinWith "," (kvs.map fun (k, v) => hexs k ++ ":" ++ canonG v) ++ "}"

def canon (v : JVal) : String := canonG (toGeneric v)

/-- ordered canonical text: objects keep member order and duplicates -/
partial def ocanon : JVal → String
  | .null => "n"
  | .bool true => "t"
  | .bool false => "f"
  | .num l => "#" ++ asciiStr l
  | .str b => "s" ++ hexs (unescapeKey b)
  | .arr xs => "[" ++ joinWith "," (xs.map ocanon) ++ "]"
  | .obj kvs => "{" ++ joinWith "," (kvs.map fun (k, v) => hexs (unescapeKey k) ++ ":" ++ ocanon v) ++ "}"

/-- what the iterators (`Values`/`Properties`/`ForEach`) deliver: children in document order,
    each child shown through its generic conversion -/
def iterView : JVal → String
  | .arr xs => "[" ++ joinWith "," (xs.map canon) ++ "]"
  | .obj kvs => "{" ++ joinWith "," (kvs.map fun (k, v) => hexs (unescapeKey k) ++ ":" ++ canon v) ++ "}"
  | _ => "-"

def optHex : Option Bytes → String
  | some b => if b.isEmpty then "e" else hexs b
  | none => "-"

def intStr : Option Int → String
  | some i => toString i
  | none => "E"

/-! ## floating-point views, through the exact number model (`Num.toF64Bits` = the correctly
    rounded binary64 of the literal, `strconv.ParseFloat(lit, 64)`; magnitude too large = error) -/

/-- `StrictFloat64` / `Float64` of a number node: the bits, or `none` when the conversion fails -/
def f64Of (lit : Bytes) : Option UInt64 :=
  match Num.toF64Bits lit with
  | .ok b => some b
  | .error _ => none

def f64View : JVal → Option (Option UInt64)
  | .num l => some (f64Of l)
  | _ => none

/-- generic value with numbers as float64: what `Interface()` yields; `none` when some number of
    the value does not fit (the conversion then returns an error for the whole value) -/
inductive FVal where
  | null
  | bool (b : Bool)
  | num (bits : UInt64)
  | str (s : Bytes)
  | arr (xs : List FVal)
  | map (kvs : List (Bytes × FVal))
deriving Repr, Inhabited

mutual
def toFloatGeneric : JVal → Option FVal
  | .null => some .null
  | .bool b => some (.bool b)
  | .num l => (f64Of l).map FVal.num
  | .str b => some (.str (unescapeKey b))
  | .arr xs => (toFloatList xs).map FVal.arr
  | .obj kvs => (toFloatMap kvs []).map FVal.map
def toFloatList : List JVal → Option (List FVal)
  | [] => some []
  | x :: xs =>
    match toFloatGeneric x with
    | none => none
    | some y => (toFloatList xs).map (y :: ·)
def toFloatMap : List (Bytes × JVal) → List (Bytes × FVal) → Option (List (Bytes × FVal))
  | [], acc => some acc
  | (k, v) :: kvs, acc =>
    match toFloatGeneric v with
    | none => none
    | some y => toFloatMap kvs (mapInsert (unescapeKey k) y acc)
end

def hexDigitLower (n : Nat) : Char := if n < 10 then Char.ofNat (48 + n) else Char.ofNat (87 + n)

/-- `strconv.FormatUint(n, 16)` -/
def natHex (n : Nat) : String :=
  let rec go : Nat → Nat → List Char → List Char
    | 0, _, acc => acc
    | fuel + 1, n, acc => if n < 16 then hexDigitLower n :: acc else go fuel (n / 16) (hexDigitLower (n % 16) :: acc)
  String.ofList (go 17 n [])

partial def canonF : FVal → String
  | .null => "n"
  | .bool true => "t"
  | .bool false => "f"
  | .num b => "F" ++ natHex b.toNat
  | .str s => "s" ++ hexs s
  | .arr xs => "[" ++ joinWith "," (xs.map canonF) ++ "]"
  | .map kvs => "{" ++ joinWith "," (kvs.map fun (k, v) => hexs k ++ ":" ++ canonF v) ++ "}"

def floatFields (v : JVal) : String :=
  ";f=" ++ (match f64View v with | some (some b) => natHex b.toNat | some none => "E" | none => "-")
    ++ ";cf=" ++ (match toFloatGeneric v with | some g => canonF g | none => "E")

/-! ## the *UseNode conversions: the children themselves, as nodes -/

/-- `ArrayUseNode` / `InterfaceUseNode` on an array: the children in document order -/
def arrayNodes : JVal → Option (List JVal)
  | .arr xs => some xs
  | _ => none

/-- `MapUseNode` / `InterfaceUseNode` on an object: one child per distinct decoded key (the last
    occurrence: `linkedPairs.ToMap` assigns in document order), sorted by key for comparison -/
def mapNodes : JVal → Option (List (Bytes × JVal))
  | .obj kvs => some (kvs.foldl (fun acc kv => mapInsert (unescapeKey kv.1) kv.2 acc) [])
  | _ => none

def useNodeView (v : JVal) : String :=
  match mapNodes v with
  | some m => "{" ++ joinWith "," (m.map fun (k, w) => hexs k ++ ":" ++ ocanon w) ++ "}"
  | none => ocanon v

/-- the record of views of a located value; `raw = none` prints `*` (the tree specification
    does not speak about the slice) -/
def viewRecord (raw : Option Bytes) (v : JVal) : String :=
  "ok;t=" ++ toString (typeOf v)
    ++ ";raw=" ++ (match raw with | some r => hexs r | none => "*")
    ++ ";oc=" ++ ocanon v
    ++ ";c=" ++ canon v
    ++ ";s=" ++ optHex (strView v)
    ++ ";n=" ++ (match numView v with | some l => asciiStr l | none => "-")
    ++ ";i=" ++ (match v with | .num l => intStr (int64Of l) | _ => "-")
    ++ ";b=" ++ (match boolView v with | some true => "1" | some false => "0" | none => "-")
    ++ ";it=" ++ iterView v
    ++ floatFields v
    ++ ";un=" ++ useNodeView v

def eventStr : Event → String
  | .null => "n"
  | .bool true => "t"
  | .bool false => "f"
  | .str s => "s" ++ hexs s
  | .num l => "#" ++ asciiStr l
  | .objBegin => "{"
  | .key k => "k" ++ hexs k
  | .objEnd => "}"
  | .arrBegin => "["
  | .arrEnd => "]"

def eventsStr (es : List Event) : String := joinWith "," (es.map eventStr)

end SonicSpec.Search
