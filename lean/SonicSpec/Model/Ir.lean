/-
  Core E (part 1): the encoder's intermediate representation - the instruction set of
  /repo/internal/encoder/ir/op.go (OP_null .. OP_is_zero, numbered as there), the amd64 memory
  layout of the modelled Go types (the operands of OP_index are byte offsets) and the
  disassembler of `ir.Program.Disassemble` / `ir.Instr.Disassemble` (op.go:362-501).
  Core Lean only.

  Abstraction of the operands.  The real instructions hold byte offsets, type descriptors and
  string pointers; the model's hold
    * `index sel off`   - `sel` is the field / element selector the abstract machine uses, `off` the
                          byte offset the real instruction carries (printed);
    * `save enter`      - OP_save.  `enter` marks the one OP_save of compileArray (compiler.go:405) after
                          which the SAME address is read as the address of element 0 of the array: a typed
                          re-interpretation that costs nothing in real memory and is not printed;
    * `key name`        - the OP_text of compileStructBody (compiler.go:503) holding `Quote(name)+":"`;
    * type operands     - the `GoType` itself.
-/
import SonicSpec.Model.Enc
import SonicSpec.Generated.Consts
namespace SonicSpec.Ir
open SonicSpec SonicSpec.Go SonicSpec.Enc

/-- ir/op.go:202 `Instr` by opcode; jump targets are absolute instruction indexes (`Vi`) -/
inductive Instr where
  | null | emptyArr | emptyObj | bool
  | i8 | i16 | i32 | i64 | u8 | u16 | u32 | u64 | f32 | f64
  | str | bin | quote | number | eface | iface
  | byte (c : UInt8)
  | text (s : Bytes)
  | key (name : Bytes)
  | deref
  | index (sel off : Nat)
  | load
  | save (enter : Bool)
  | drop | drop2
  | recurse (t : GoType) (pv : Bool)
  | isNil (tgt : Nat) | isNilP1 (tgt : Nat)
  | isZero1 (tgt : Nat) | isZero2 (tgt : Nat) | isZero4 (tgt : Nat) | isZero8 (tgt : Nat)
  | isZeroMap (tgt : Nat)
  | goto (tgt : Nat)
  | mapIter (t : GoType) | mapStop | mapCheckKey (tgt : Nat) | mapWriteKey (tgt : Nat) | mapValueNext
  | sliceLen | sliceNext (tgt : Nat) (t : GoType)
  | marshal (t : GoType) | marshalP (t : GoType) | marshalText (t : GoType) | marshalTextP (t : GoType)
  | condSet | condTestc (tgt : Nat)
  | unsupported (t : GoType)
  | isZero (tgt : Nat)
deriving Repr, Inhabited

abbrev Program := List Instr

/-- numeric opcode (ir/op.go:33-86, `iota + 1`) -/
def Instr.code : Instr → Nat
  | .null => 1 | .emptyArr => 2 | .emptyObj => 3 | .bool => 4
  | .i8 => 5 | .i16 => 6 | .i32 => 7 | .i64 => 8 | .u8 => 9 | .u16 => 10 | .u32 => 11 | .u64 => 12
  | .f32 => 13 | .f64 => 14 | .str => 15 | .bin => 16 | .quote => 17 | .number => 18 | .eface => 19 | .iface => 20
  | .byte _ => 21 | .text _ => 22 | .key _ => 22 | .deref => 23 | .index _ _ => 24 | .load => 25 | .save _ => 26
  | .drop => 27 | .drop2 => 28 | .recurse _ _ => 29 | .isNil _ => 30 | .isNilP1 _ => 31
  | .isZero1 _ => 32 | .isZero2 _ => 33 | .isZero4 _ => 34 | .isZero8 _ => 35 | .isZeroMap _ => 36
  | .goto _ => 37 | .mapIter _ => 38 | .mapStop => 39 | .mapCheckKey _ => 40 | .mapWriteKey _ => 41
  | .mapValueNext => 42 | .sliceLen => 43 | .sliceNext _ _ => 44
  | .marshal _ => 45 | .marshalP _ => 46 | .marshalText _ => 47 | .marshalTextP _ => 48
  | .condSet => 49 | .condTestc _ => 50 | .unsupported _ => 51 | .isZero _ => 52

/-- `OpNames` (ir/op.go:96-148) -/
def Instr.name : Instr → String
  | .null => "null" | .emptyArr => "empty_arr" | .emptyObj => "empty_obj" | .bool => "bool"
  | .i8 => "i8" | .i16 => "i16" | .i32 => "i32" | .i64 => "i64" | .u8 => "u8" | .u16 => "u16" | .u32 => "u32" | .u64 => "u64"
  | .f32 => "f32" | .f64 => "f64" | .str => "str" | .bin => "bin" | .quote => "quote" | .number => "number"
  | .eface => "eface" | .iface => "iface" | .byte _ => "byte" | .text _ => "text" | .key _ => "text" | .deref => "deref"
  | .index _ _ => "index" | .load => "load" | .save _ => "save" | .drop => "drop" | .drop2 => "drop_2"
  | .recurse _ _ => "recurse" | .isNil _ => "is_nil" | .isNilP1 _ => "is_nil_p1"
  | .isZero1 _ => "is_zero_1" | .isZero2 _ => "is_zero_2" | .isZero4 _ => "is_zero_4" | .isZero8 _ => "is_zero_8"
  | .isZeroMap _ => "is_zero_map" | .goto _ => "goto" | .mapIter _ => "map_iter" | .mapStop => "map_stop"
  | .mapCheckKey _ => "map_check_key" | .mapWriteKey _ => "map_write_key" | .mapValueNext => "map_value_next"
  | .sliceLen => "slice_len" | .sliceNext _ _ => "slice_next"
  | .marshal _ => "marshal" | .marshalP _ => "marshal_p" | .marshalText _ => "marshal_text" | .marshalTextP _ => "marshal_text_p"
  | .condSet => "cond_set" | .condTestc _ => "cond_testc" | .unsupported _ => "unsupported type" | .isZero _ => "<invalid>"

/-- the integer operand `Vi` (ir/op.go:274) -/
def Instr.vi : Instr → Nat
  | .byte c => c.toNat
  | .index _ off => off
  | .recurse _ pv => if pv then 1 else 0
  | .isNil t | .isNilP1 t | .isZero1 t | .isZero2 t | .isZero4 t | .isZero8 t | .isZeroMap t | .goto t
  | .mapCheckKey t | .mapWriteKey t | .sliceNext t _ | .condTestc t | .isZero t => t
  | _ => 0

/-- ir/op.go:333 `isBranch` (OP_is_zero_map and OP_is_zero are NOT in the list: their targets get no label) -/
def Instr.isBranch : Instr → Bool
  | .goto _ | .isNil _ | .isNilP1 _ | .isZero1 _ | .isZero2 _ | .isZero4 _ | .isZero8 _
  | .mapCheckKey _ | .mapWriteKey _ | .sliceNext _ _ | .condTestc _ => true
  | _ => false

/-! ### memory layout (amd64: what `reflect.Type.Size/Align/Field(i).Offset` return) -/

def alignUp (n a : Nat) : Nat := if a == 0 then n else (n + a - 1) / a * a

mutual
/-- `(size, align)` of a type -/
def tlayout : GoType → Nat × Nat
  | .bool => (1, 1)
  | .int b => (b / 8, b / 8)
  | .uint b => (b / 8, b / 8)
  | .f32 => (4, 4)
  | .f64 => (8, 8)
  | .str | .num => (16, 8)
  | .bytes | .raw => (24, 8)
  | .any => (16, 8)
  | .sl _ => (24, 8)
  | .arr n t => let (s, a) := tlayout t; (n * s, a)
  | .ptr _ => (8, 8)
  | .map _ _ => (8, 8)
  | .st fs =>
    let (e, a, lastZero) := flayout fs 0 1
    -- a trailing zero-size field is followed by one byte of padding (reflect.StructOf `lastzero`)
    let e' := if lastZero && e > 0 then e + 1 else e
    (alignUp e' a, a)
  | .lib n => (if n == "Rec" || n == "LT" then 16 else if n == "Tree" then 48 else if n == "LJ" || n == "LJP" then 24 else 8, 8)     -- go/harness/types.go
/-- end offset, alignment, "the last field has size zero" after laying the fields out from `off` -/
def flayout : List (String × Option Bytes × GoType) → Nat → Nat → Nat × Nat × Bool
  | [], off, a => (off, a, false)
  | (_, _, t) :: r, off, a =>
    let (s, al) := tlayout t
    let o := alignUp off al
    match r with
    | [] => (o + s, max a al, s == 0)
    | _ :: _ => flayout r (o + s) (max a al)
end

def tsize (t : GoType) : Nat := (tlayout t).1
def talign (t : GoType) : Nat := (tlayout t).2

/-- byte offsets of the declared fields -/
def offsets : List (String × Option Bytes × GoType) → Nat → List Nat
  | [], _ => []
  | (_, _, t) :: r, off =>
    let o := alignUp off (talign t)
    o :: offsets r (o + tsize t)

/-! ### the disassembler (ir/op.go:362 `Instr.Disassemble`, :473 `Program.Disassemble`), in the canonical
    spelling of go/harness/ops_ir_hook.go: type operands in the type-expression grammar, the text operand as
    hex, addresses as PTR -/

def hexDigits (n : Nat) : String :=
  let rec go : Nat → Nat → List Char → List Char
    | 0, _, acc => acc
    | f+1, m, acc =>
      let acc' := hexDigit (m % 16).toUInt8 :: acc
      if m / 16 == 0 then acc' else go f (m / 16) acc'
  String.ofList (go 16 n [])

def pad18 (s : String) : String := s ++ String.ofList (List.replicate (18 - s.length) ' ')

/-- `[]uint8` is printed `bytes` (one Go type, two spellings in the grammar) -/
partial def typeSx : GoType → String
  | .sl (.uint 8) => "bytes"
  | .sl t => s!"(sl {typeSx t})"
  | .arr n t => s!"(arr {n} {typeSx t})"
  | .ptr t => s!"(ptr {typeSx t})"
  | .map k t => s!"(map {typeSx k} {typeSx t})"
  | .st fs => "(st" ++ String.join (fs.map fun (n, tg, t) =>
      s!" (f {n} {match tg with | none => "-" | some b => hex b} {typeSx t})") ++ ")"
  | t => typeToString t

def rawForm (i : Instr) (ptr : String) : String :=
  "ir.Instr{o:0x" ++ hexDigits i.code ++ ", u:" ++ toString i.vi ++ ", p:(unsafe.Pointer)(" ++ ptr ++ ")}"

def Instr.disasm (i : Instr) : String :=
  match i with
  | .byte c => pad18 i.name ++ "'" ++ String.singleton (Char.ofNat c.toNat) ++ "'"
  | .text s => pad18 i.name ++ hexArg s
  | .key n => pad18 i.name ++ hexArg (quoteLit false false n ++ [58])
  | .index _ off => pad18 i.name ++ toString off
  | .recurse t pv => pad18 i.name ++ typeSx t ++ ", pv=" ++ (if pv then "1" else "0")
  | .mapIter t => pad18 i.name ++ typeSx t
  | .marshal t | .marshalP t | .marshalText t | .marshalTextP t => pad18 i.name ++ typeSx t
  | .goto t | .isNil t | .isNilP1 t | .isZero1 t | .isZero2 t | .isZero4 t | .isZero8 t | .isZeroMap t
  | .condTestc t | .mapCheckKey t | .mapWriteKey t => pad18 i.name ++ "L_" ++ toString t
  | .sliceNext t ty => pad18 i.name ++ "L_" ++ toString t ++ ", " ++ typeSx ty
  | .unsupported t => rawForm i "PTR" ++ " ; " ++ typeSx t
  | .isZero _ => rawForm i "PTR"
  | _ => rawForm i "nil"

def disasm (p : Program) : String :=
  let n := p.length
  -- op.go:475-483: the label table
  let tab : Array Bool := p.foldl (fun t i => if i.isBranch && i.vi ≤ n then t.set! i.vi true else t) (Array.replicate (n + 1) false)
  let lines := p.zipIdx.map fun (ins, i) =>
    if tab[i]! then s!"L_{i}:\n\t{ins.disasm}" else s!"\t{ins.disasm}"
  let last := if tab[n]! then [s!"L_{n}:"] else []
  "\n".intercalate (lines ++ last ++ ["\tend"])

/-! ### compile options and limits -/

/-- option.CompileOptions (option/option.go:34) as far as the compiler reads them -/
structure COpts where
  maxInlineDepth : Nat := Gen.defaultMaxInlineDepth.toNat
  encOnlyOmitNull : Bool := false
deriving Repr, Inhabited

def maxStack : Nat := Gen.encMaxStack.toNat
def maxIlbuf : Nat := Gen.encMaxIlbuf.toNat
def maxFields : Nat := Gen.encMaxFields.toNat

end SonicSpec.Ir
