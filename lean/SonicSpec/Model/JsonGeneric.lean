/-
  C02: the value state machine of the generic (interface{}) decoder,
  /repo/internal/decoder/jitdec/generic_regabi_amd64.go (`_ValueDecoder.compile`): seven states
  `_S_val .. _S_obj_sep` kept on a stack `ST.Vt[0..Sp]`, one handler `_decode_V_*` per token kind that
  tests the state on top (bit mask `_S_vmask/_S_omask_key/_S_omask_end` or `CMPQ`), rewrites it, and
  pushes (`ADDQ $1,CX; CMPQ CX,$MAX_RECURSE; JAE _stack_overflow`) or pops (`SUBQ $n, ST.Sp`).

  `gTable` is that decision table as data.  It is NOT trusted as transcribed: `vlib/props/C02.py`
  re-extracts it from the Go source on every run and compares it with what the driver prints (`gentab`).
  `Props/C02Generic.lean` proves that the machine driven by this table accepts exactly the token-level
  JSON grammar (within its frame budget): every (state, token) entry is a step of the grammar, every
  missing entry an error.
-/
namespace SonicSpec.Json

/-- `_S_val = 1 .. _S_obj_sep = 7` (generic_regabi_amd64.go:138-146) -/
inductive GState where
  | val | arr | arr0 | obj | obj0 | objDelim | objSep
deriving DecidableEq, Repr, Inhabited

/-- token kinds = handlers: scalars other than strings (`_decode_V_NULL/TRUE/FALSE/DOUBLE/INTEGER`, all
    end in `_set_value`), `_decode_V_STRING`, `_decode_V_ARRAY` `[`, `_decode_V_OBJECT` `{`,
    `_decode_V_KEY_SEP` `:`, `_decode_V_ELEM_SEP` `,`, `_decode_V_ARRAY_END` `]`, `_decode_V_OBJECT_END` `}` -/
inductive GTok where
  | scalar | str | lb | lc | colon | comma | rb | rc
deriving DecidableEq, Repr, Inhabited

/-- what a handler does to the stack once its state test passed: rewrite `Vt[Sp]`, rewrite `Vt[Sp-1]`,
    push one state (with the overflow check) or pop `pop` states -/
structure GAct where
  setTop : Option GState := none
  setBelow : Option GState := none
  push : Option GState := none
  pop : Nat := 0
deriving DecidableEq, Repr, Inhabited

/-- the decision table; `none` = `_invalid_char` / `_vtype_error` -/
def gTable : GTok → GState → Option GAct
  -- _set_value: BTQ Vt[Sp], _S_vmask = {val, arr_0}; SUBQ $1, ST.Sp
  | .scalar, .val => some { pop := 1 }
  | .scalar, .arr0 => some { pop := 1 }
  -- _decode_V_STRING: BTQ Vt[Sp], _S_omask_key = {obj_0, obj_sep} -> _object_key: push obj_delim; else _set_value
  | .str, .obj0 => some { push := some .objDelim }
  | .str, .objSep => some { push := some .objDelim }
  | .str, .val => some { pop := 1 }
  | .str, .arr0 => some { pop := 1 }
  -- _decode_V_ARRAY: _S_vmask; Vt[Sp] := arr; push arr_0
  | .lb, .val => some { setTop := some .arr, push := some .arr0 }
  | .lb, .arr0 => some { setTop := some .arr, push := some .arr0 }
  -- _decode_V_OBJECT: _S_vmask; Vt[Sp] := obj_0
  | .lc, .val => some { setTop := some .obj0 }
  | .lc, .arr0 => some { setTop := some .obj0 }
  -- _decode_V_KEY_SEP: CMPQ obj_delim; Vt[Sp] := val; Vt[Sp-1] := obj
  | .colon, .objDelim => some { setTop := some .val, setBelow := some .obj }
  -- _decode_V_ELEM_SEP: arr -> _array_sep: push val; obj -> Vt[Sp] := obj_sep
  | .comma, .arr => some { push := some .val }
  | .comma, .obj => some { setTop := some .objSep }
  -- _decode_V_ARRAY_END: arr_0 -> _first_item: SUBQ $2; arr -> SUBQ $1
  | .rb, .arr0 => some { pop := 2 }
  | .rb, .arr => some { pop := 1 }
  -- _decode_V_OBJECT_END: _S_omask_end = {obj_0, obj}; SUBQ $1
  | .rc, .obj0 => some { pop := 1 }
  | .rc, .obj => some { pop := 1 }
  | _, _ => none

inductive GErr where
  | inval | eof | depth
deriving DecidableEq, Repr, Inhabited

/-- apply an action to the stack `top :: st` (`Sp` = `st.length`); a push needs `Sp + 1 < B` -/
def gApply (B : Nat) (a : GAct) (top : GState) (st : List GState) : Except GErr (List GState) :=
  let top' := a.setTop.getD top
  let st1 : List GState := match a.setBelow, st with
    | some b, _ :: r => b :: r
    | _, _ => st
  match a.push with
  | some p => if st.length + 1 < B then .ok (p :: top' :: st1) else .error .depth
  | none => .ok ((top' :: st1).drop a.pop)

/-- the `_next` loop: stop when the stack is empty (`JS _return`), EOF is an error, otherwise one handler -/
def grun (B : Nat) : List GState → List GTok → Except GErr (List GTok)
  | [], ts => .ok ts
  | _ :: _, [] => .error .eof
  | top :: st, t :: ts =>
    match gTable t top with
    | none => .error .inval
    | some a =>
      match gApply B a top st with
      | .ok st' => grun B st' ts
      | .error e => .error e

/-- decodeGeneric: `ST.Sp = 0, ST.Vt[0] = _S_val` -/
def gDecode (B : Nat) (ts : List GTok) : Except GErr (List GTok) := grun B [.val] ts

def GState.num : GState → Nat
  | .val => 1 | .arr => 2 | .arr0 => 3 | .obj => 4 | .obj0 => 5 | .objDelim => 6 | .objSep => 7

/-! ### the token-level grammar (right-linear, like the byte-level one), indexed by the number of stack
    slots a piece needs above the slot it starts in -/

mutual
inductive TVal : Nat → List GTok → Prop
  | scalar : TVal 0 [.scalar]
  | str : TVal 0 [.str]
  | arr (k : Nat) (t : List GTok) : TArr0 k t → TVal k (.lb :: t)
  | obj (k : Nat) (t : List GTok) : TObj0 k t → TVal k (.lc :: t)
/-- after `[` -/
inductive TArr0 : Nat → List GTok → Prop
  | close : TArr0 1 [.rb]
  | first (k m : Nat) (v t : List GTok) : TVal k v → TArrT m t → TArr0 (max (k + 1) m) (v ++ t)
/-- after an array element -/
inductive TArrT : Nat → List GTok → Prop
  | close : TArrT 0 [.rb]
  | more (k m : Nat) (v t : List GTok) : TVal k v → TArrT m t → TArrT (max (k + 1) m) (.comma :: (v ++ t))
/-- after `{` -/
inductive TObj0 : Nat → List GTok → Prop
  | close : TObj0 0 [.rc]
  | first (k m : Nat) (v t : List GTok) : TVal k v → TObjT m t → TObj0 (max (k + 1) m) (.str :: .colon :: (v ++ t))
/-- after an object member -/
inductive TObjT : Nat → List GTok → Prop
  | close : TObjT 0 [.rc]
  | more (k m : Nat) (v t : List GTok) : TVal k v → TObjT m t →
      TObjT (max (k + 1) m) (.comma :: .str :: .colon :: (v ++ t))
end

end SonicSpec.Json
