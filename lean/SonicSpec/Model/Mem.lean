/-
  Core I (memory-indexed scanners), generic part.  Core Lean only.

  A memory is a partial map from addresses to bytes; `none` = unmapped, and loading an unmapped
  byte is a fault.  The native routines of sonic (native/scanning.h, lspace.h, parsing.h; what runs
  is the pre-assembled copy in internal/native/{avx2,sse}) all have one shape:

      while (nb >= W₁) { load W₁ bytes; vector code on the block; sp += W₁; nb -= W₁ }
      while (nb >= W₂) { ... }                      -- narrower rounds
      scalar loop over the remaining bytes

  and the AVX2 and the SSE build differ in the list of block widths only (lspace: [32] / [];
  do_skip_number, memcchr_quote, memcchr_p32: [32,16] / [16]; advance_string: [64,32] in both, as
  2x32 resp. 4x16 loads).  `Scan.run` is that shape, parametric in the list of widths, in the vector
  code of one block (`blk`, a function of the loaded bytes only) and in the scalar code (`tail`).
-/
import SonicSpec.Model.Hex
namespace SonicSpec.Mem

/-- partial memory: `none` = unmapped (a load of that byte faults) -/
abbrev Mem := Nat → Option UInt8

/-- 4 KiB pages (native/utils.h:22 `vec_cross_page`) -/
def page (a : Nat) : Nat := a / 4096

/-- what a routine sees: the memory indexed from the start of its input (`buf[i]`) -/
abbrev Rd := Nat → Option UInt8

/-- the reader of a `GoString{buf = base, len}` placed in memory `m` -/
def view (m : Mem) (base : Nat) : Rd := fun i => m (base + i)

/-- every byte of the input `[base, base+len)` is mapped -/
def Mapped (m : Mem) (base len : Nat) : Prop := ∀ i, i < len → m (base + i) ≠ none

/-- two placements of the same content (same bytes - or the same holes - at the same offsets) -/
def SameContent (m : Mem) (base : Nat) (m' : Mem) (base' : Nat) (len : Nat) : Prop :=
  ∀ i, i < len → m (base + i) = m' (base' + i)

/-- memory protection is page granular: a page is mapped as a whole or not at all -/
def PageGranular (m : Mem) : Prop := ∀ a a', page a = page a' → m a ≠ none → m a' ≠ none

/-- a byte list as a memory that holds exactly the list (everything behind it is unmapped) -/
def ofList (s : Bytes) : Rd := fun i => s[i]?

/-- vector load of `W` bytes at offset `off`: faults (`none`) if any of the bytes is unmapped -/
def loadW (rd : Rd) : Nat → Nat → Option Bytes
  | 0, _ => some []
  | W + 1, off =>
    match rd off, loadW rd W (off + 1) with
    | some b, some r => some (b :: r)
    | _, _ => none

/-- outcome of the code run on one block / one byte: go on with a new state, or return -/
inductive Step (σ ρ : Type) where
  | cont (s : σ)
  | done (r : ρ)

/-- `__builtin_ctz` of a mask given as the list of its bits, lowest first (`none` = mask is 0) -/
def ctz : List Bool → Option Nat
  | [] => none
  | true :: _ => some 0
  | false :: r => (ctz r).map (· + 1)

/-- the scalar twin: `while (off < len) { b = buf[off]; step }`, one guarded byte load per round -/
def scalarLoop {σ ρ : Type} (step : σ → Nat → UInt8 → Step σ ρ) (eof : σ → Nat → ρ)
    (rd : Rd) (len : Nat) (st : σ) (off : Nat) : Option ρ :=
  if _h : off < len then
    match rd off with
    | none => none
    | some b =>
      match step st off b with
      | .done r => some r
      | .cont st' => scalarLoop step eof rd len st' (off + 1)
  else some (eof st off)
termination_by len - off

/-- the scalar code run over the bytes of one block (what the vector code has to reproduce) -/
def foldSteps {σ ρ : Type} (step : σ → Nat → UInt8 → Step σ ρ) : σ → Nat → Bytes → Step σ ρ
  | st, _, [] => .cont st
  | st, off, b :: bs =>
    match step st off b with
    | .done r => .done r
    | .cont st' => foldSteps step st' (off + 1) bs

/-- a block-wise scanner: vector code for one full block, scalar code for the rest -/
structure Scan (σ ρ : Type) where
  /-- state, offset of the block, the loaded bytes -/
  blk : σ → Nat → Bytes → Step σ ρ
  /-- reader, length of the input, state, offset -/
  tail : Rd → Nat → σ → Nat → Option ρ

/-- rounds of block widths `Ws` (each `while (nb >= W)`), then the scalar code.
    `none` = a load faulted. -/
def Scan.run {σ ρ : Type} (S : Scan σ ρ) (rd : Rd) (len : Nat) : List Nat → σ → Nat → Option ρ
  | [], st, off => S.tail rd len st off
  | W :: Ws, st, off =>
    if _h : 0 < W ∧ off + W ≤ len then
      match loadW rd W off with
      | none => none
      | some bs =>
        match S.blk st off bs with
        | .done r => some r
        | .cont st' => S.run rd len (W :: Ws) st' (off + W)
    else S.run rd len Ws st off
termination_by Ws _ off => (Ws.length, len - off)
decreasing_by
  · apply Prod.Lex.right; omega
  · apply Prod.Lex.left; simp

end SonicSpec.Mem
