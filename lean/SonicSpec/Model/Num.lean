/-
  Core C (numbers), executable model, part 1: literal -> value.  Core Lean only.

  The model is the exact specification, written with unbounded `Nat`/`Int` arithmetic:
    * `parseDec`   RFC 8259 number literal  ->  sign, decimal mantissa `m`, decimal exponent `e`
                   (value = (-1)^neg * m * 10^e) and whether the literal is an integer literal
                   (no fraction, no exponent: what `strconv.ParseInt`, used by encoding/json for
                   integer destinations, accepts);
    * `roundNat`   one division and round-half-to-even of a positive rational to `q * 2^t`
                   with `q < 2^p`, in units of the smallest subnormal;
    * `toF64Bits` / `toF32Bits`  the IEEE bit pattern (`strconv.ParseFloat(s, 64 | 32)`; overflow
                   is an error as in strconv / encoding/json; the sign of zero is kept);
    * `fitsInt` / `fitsUint`     exact integer conversion with range check.

  The code being specified is machine code (native/atof_eisel_lemire.h, native/atof_native.h,
  native/parsing.h:vnumber/vsigned/vunsigned, the range checks of
  internal/decoder/jitdec/assembler_regabi_amd64.go) and is tied to this model by correspondence only.
-/
import SonicSpec.Model.Hex
namespace SonicSpec.Num

inductive NumErr where
  | syntax   -- not an RFC 8259 number literal
  | range    -- magnitude too large for the destination
  | notInt   -- literal has a fraction or an exponent part, destination is an integer
  deriving DecidableEq, Repr

/-- a parsed literal: value = (-1)^neg * m * 10^e -/
structure Dec where
  neg : Bool
  m : Nat
  e : Int
  isInt : Bool
  deriving DecidableEq, Repr

def isDigit (c : UInt8) : Bool := 48 ≤ c && c ≤ 57

def digitVal (c : UInt8) : Nat := c.toNat - 48

/-- longest prefix of decimal digits: (accumulated value, number of digits, rest) -/
def takeDigits : Bytes → Nat → Nat → Nat × Nat × Bytes
  | [], acc, n => (acc, n, [])
  | c :: r, acc, n =>
    if isDigit c then takeDigits r (acc * 10 + digitVal c) (n + 1) else (acc, n, c :: r)

/-- digits of the exponent part after `e`/`E`: optional sign, at least one digit, then end of input -/
def parseExpDigits (r : Bytes) : Option Int :=
  let sr : Bool × Bytes :=
    match r with
    | 43 :: t => (false, t)
    | 45 :: t => (true, t)
    | _ => (false, r)
  let td := takeDigits sr.2 0 0
  if td.2.1 == 0 || !td.2.2.isEmpty then none
  else some (if sr.1 then - (td.1 : Int) else (td.1 : Int))

/-- exponent part and end of input; `nfrac` = number of fraction digits already folded into `m` -/
def parseExp (neg : Bool) (m : Nat) (nfrac : Nat) (hasFrac : Bool) : Bytes → Option Dec
  | [] => some { neg := neg, m := m, e := - (nfrac : Int), isInt := !hasFrac }
  | c :: r =>
    if c == 101 || c == 69 then
      match parseExpDigits r with
      | none => none
      | some x => some { neg := neg, m := m, e := x - (nfrac : Int), isInt := false }
    else none

/-- optional fraction, then exponent -/
def parseFrac (neg : Bool) (m : Nat) : Bytes → Option Dec
  | 46 :: r =>
    let td := takeDigits r m 0
    if td.2.1 == 0 then none else parseExp neg td.1 td.2.1 true td.2.2
  | s => parseExp neg m 0 false s

/-- integer part: `0` or a non-zero digit followed by digits -/
def parseInt1 (neg : Bool) : Bytes → Option Dec
  | [] => none
  | c :: r =>
    if c == 48 then parseFrac neg 0 r
    else if 49 ≤ c && c ≤ 57 then
      let td := takeDigits (c :: r) 0 0
      parseFrac neg td.1 td.2.2
    else none

/-- RFC 8259 `number = [ minus ] int [ frac ] [ exp ]`, the whole input -/
def parseDec : Bytes → Option Dec
  | 45 :: r => parseInt1 true r
  | s => parseInt1 false s

/-! ### binary floating point -/

/-- a binary format: `prec` significant bits, exponent field of `ebits` bits.
    `bias` = -(exponent of the last place of a subnormal): 1074 / 149;
    `tmax` = exponent of the last place of the largest finite number, in the same units: 2045 / 253 -/
structure Fmt where
  prec : Nat
  ebits : Nat
  bias : Nat
  tmax : Nat

def f64 : Fmt := { prec := 53, ebits := 11, bias := 1074, tmax := 2045 }
def f32 : Fmt := { prec := 24, ebits := 8, bias := 149, tmax := 253 }

/-- nearest integer to N/D, ties to even -/
def rne (N D : Nat) : Nat :=
  let q := N / D
  let r := N % D
  if 2 * r < D then q else if D < 2 * r then q + 1 else if q % 2 = 0 then q else q + 1

/-- round the rational N/D (N, D > 0) to `q * 2^t` with `q < 2^p` and `t` minimal
    (`t = 0` is the subnormal range and the first normal binade): the binary exponent is chosen
    with `Nat.log2` and corrected by one comparison, then one division, round-half-even, and the
    carry into the next binade -/
def roundNat (p : Nat) (N D : Nat) : Nat × Nat :=
  let t0 := Nat.log2 N - Nat.log2 D - p
  let t := if 2 ^ p * (D * 2 ^ t0) ≤ N then t0 + 1 else t0
  let q := rne N (D * 2 ^ t)
  if q = 2 ^ p then (2 ^ (p - 1), t + 1) else (q, t)

/-- numerator and denominator of `m * 10^e` -/
def scale (m : Nat) (e : Int) : Nat × Nat :=
  if e ≥ 0 then (m * 10 ^ e.toNat, 1) else (m, 10 ^ (-e).toNat)

/-- the magnitude of a literal rounded to format `f`: `some (q, t)` (value `q * 2^(t - bias)`),
    `none` = overflow.  The two guards only keep `10^|e|` small; they are proved to agree with the
    unguarded computation in `Props/C19.lean` (`toBits` theorems are about this very function). -/
def roundDec (f : Fmt) (m : Nat) (e : Int) : Option (Nat × Nat) :=
  if m = 0 then some (0, 0)
  else if e > 400 then none
  else if e < 0 ∧ Nat.log2 m + 1200 < 3 * (-e).toNat then some (0, 0)
  else
    let nd := scale m e
    let r := roundNat f.prec (nd.1 * 2 ^ f.bias) nd.2
    if r.2 > f.tmax then none else some r

/-- bit pattern of the magnitude `q * 2^(t - bias)` (canonical `q`, `t`) -/
def packBits (f : Fmt) (q t : Nat) : Nat := t * 2 ^ (f.prec - 1) + q

def signBit (f : Fmt) : Nat := 2 ^ (f.prec - 1 + f.ebits)

def toBits (f : Fmt) (lit : Bytes) : Except NumErr Nat :=
  match parseDec lit with
  | none => .error .syntax
  | some d =>
    match roundDec f d.m d.e with
    | none => .error .range
    | some (q, t) => .ok (packBits f q t + (if d.neg then signBit f else 0))

/-- `strconv.ParseFloat(lit, 64)` restricted to JSON literals, as bits -/
def toF64Bits (lit : Bytes) : Except NumErr UInt64 :=
  (toBits f64 lit).map UInt64.ofNat

/-- `strconv.ParseFloat(lit, 32)` (what encoding/json stores into a float32), as bits -/
def toF32Bits (lit : Bytes) : Except NumErr UInt32 :=
  (toBits f32 lit).map UInt32.ofNat

/-- what a decoder that rounds to float64 first and then to float32 computes (NOT the
    specification; the driver reports it so that the double-rounding defect can be recognised
    narrowly) -/
def f32ViaF64 (lit : Bytes) : Except NumErr Nat :=
  match parseDec lit with
  | none => .error .syntax
  | some d =>
    match roundDec f64 d.m d.e with
    | none => .error .range
    | some (q, t) =>
      if q = 0 then .ok (if d.neg then signBit f32 else 0)
      else
        -- q * 2^(t - 1074) as N/D in units of 2^-149
        let nd : Nat × Nat := if t + 149 ≥ 1074 then (q * 2 ^ (t + 149 - 1074), 1) else (q, 2 ^ (1074 - (t + 149)))
        let r := roundNat 24 nd.1 nd.2
        if r.2 > f32.tmax then .error .range
        else .ok (packBits f32 r.1 r.2 + (if d.neg then signBit f32 else 0))

/-! ### integers -/

/-- value of an integer literal (`none`: malformed, or has a fraction / exponent part) -/
def intValue (lit : Bytes) : Except NumErr Int :=
  match parseDec lit with
  | none => .error .syntax
  | some d => if d.isInt then .ok (if d.neg then - (d.m : Int) else (d.m : Int)) else .error .notInt

/-- signed destination of `w` bits -/
def fitsInt (w : Nat) (lit : Bytes) : Except NumErr Int :=
  match intValue lit with
  | .error e => .error e
  | .ok n => if - (2 ^ (w - 1) : Int) ≤ n ∧ n < (2 ^ (w - 1) : Int) then .ok n else .error .range

/-- unsigned destination of `w` bits; a minus sign is rejected even for `-0`
    (`strconv.ParseUint` / encoding/json) -/
def fitsUint (w : Nat) (lit : Bytes) : Except NumErr Nat :=
  match parseDec lit with
  | none => .error .syntax
  | some d =>
    if !d.isInt then .error .notInt
    else if d.neg then .error .range
    else if d.m < 2 ^ w then .ok d.m else .error .range

end SonicSpec.Num
