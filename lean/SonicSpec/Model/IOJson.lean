/-
  C17: the inner one-value decoder of the stream models, instantiated with the strict parser of
  Model/JsonTree.lean.  A decoded value is represented by its canonical compact text (numbers keep
  their literal - the harness decodes with UseNumber -, object members sorted by key with the last
  duplicate winning - a Go map re-marshalled by encoding/json).  Core Lean only.
-/
import SonicSpec.Model.JsonTree
import SonicSpec.Model.IO
import SonicSpec.Model.StrUtf8
namespace SonicSpec.IO
open SonicSpec.Json

def bytesLt : Bytes → Bytes → Bool
  | [], [] => false
  | [], _ :: _ => true
  | _ :: _, [] => false
  | a :: r, b :: t => if a < b then true else if b < a then false else bytesLt r t

/-- insert into a key-sorted member list; an equal key is replaced (the later member wins) -/
def insertKV (k : Bytes) (v : JVal) : List (Bytes × JVal) → List (Bytes × JVal)
  | [] => [(k, v)]
  | (k', v') :: r =>
    if bytesLt k k' then (k, v) :: (k', v') :: r
    else if bytesLt k' k then (k', v') :: insertKV k v r
    else (k, v) :: r

mutual
def canon : JVal → JVal
  | .arr xs => .arr (canonList xs)
  | .obj kvs => .obj (canonMembers kvs [])
  | v => v
def canonList : List JVal → List JVal
  | [] => []
  | x :: xs => canon x :: canonList xs
def canonMembers : List (Bytes × JVal) → List (Bytes × JVal) → List (Bytes × JVal)
  | [], acc => acc
  | (k, v) :: r, acc => canonMembers r (insertKV k (canon v) acc)
end

/-- decode one value at the head of a frame: canonical text and number of bytes consumed -/
def decJson (f : Bytes) : Option (Bytes × Nat) :=
  match parseVal (f.length + 1) f with
  | some (v, rest) => some (render (canon v), f.length - rest.length)
  | none => none

/-- the number rule of sonic's own one-value decoder under UseNumber (native do_skip_number,
    scanning.h:1025): after an optional `-` a digit is required; a `0` not followed by `.`/`e`/`E`
    is the number `0`; otherwise the whole run of number characters must be one well-formed number
    (a second `.`, a sign that does not follow the exponent mark, ... is an error, not the end of
    the number as in encoding/json's scanner) -/
def decSonicNumber (f : Bytes) : Option (Bytes × Nat) :=
  let (sign, t) : Bytes × Bytes := match f with
    | 45 :: r => ([45], r)
    | _ => ([], f)
  match t with
  | [] => none
  | c :: r =>
    if !isDigit c then none
    else
      let zeroAlone : Bool := match r with
        | [] => true
        | d :: _ => !(d == 46 || d == 101 || d == 69)
      if c == 48 && zeroAlone then some (sign ++ [48], sign.length + 1)
      else
        let run := t.take (numRun t)
        match scanNumber run with
        | some (_, []) => some (sign ++ run, sign.length + run.length)
        | _ => none

/-- sonic's one-value decoder as the harness configures it (UseNumber, ValidateString): the strict
    grammar, except for the number rule above at the head of a frame -/
def decSonic (f : Bytes) : Option (Bytes × Nat) :=
  match f with
  | c :: _ => if isNumStart c then decSonicNumber f else decJson f
  | [] => none

/-- U+FFFD -/
def replChar : Bytes := [239, 191, 189]

/-- sonic's one-value decoder with ValidateString on a frame that holds ill-formed UTF-8
    (jitdec/decoder.go:55, optdec/native.go:141): the frame is first copied with every offending
    byte replaced by U+FFFD, then decoded; the position it reports (`Decoder.Pos()`) counts in
    that CORRECTED copy, which is longer than the input -/
def decSonicV (f : Bytes) : Option (Bytes × Nat) :=
  if Str.validate f then decSonic f else decSonic (Str.correctWith replChar f)

/-- the same decoder with the consumed length counted in the input (never more than the frame):
    the inner decoder of the specification and of the repaired model -/
def decSonicIn (f : Bytes) : Option (Bytes × Nat) :=
  (decSonicV f).map fun (v, n) => (v, min n f.length)

end SonicSpec.IO
