/-
  Core E (part 2): `compile`, the encoder's compiler, after /repo/internal/encoder/compiler.go.

  The Go compiler appends to one program and patches forward jumps afterwards (`Pin`, `Rel`); here
  every routine is a function of the position `pc` at which its code starts (= `p.PC()` on entry) and
  returns the code fragment, the jump targets being computed from the lengths of the parts.  `sp` is
  the static state-stack depth, `pv` the compiler's `self.pv` (the value is reached through a pointer).

  Named struct types (`(lib Rec)`, `(lib Tree)`; `Enc.libStruct`) are compiled with `Compiler.tab` (see below).
  Not modelled: json.Marshaler / TextMarshaler dispatch (tryCompileMarshaler) - it needs methods, i.e. a named type with
  callbacks: such a `(lib _)` type compiles to `unsupported`, `raw` (json.RawMessage) to its OP_marshal.
  The field list of a struct is `Enc.keepList` - internal/resolver/fields.go is a copy of
  encoding/json's `typeFields`, after which `keepList` is written; the disassembly correspondence
  compares the outcome (names, order, options, offsets) on every generated struct type.
  `Program.Tag` (op.go:420: panic "type nesting too deep" when `sp >= MaxStack`) is the separate
  predicate `tagOK`.
-/
import SonicSpec.Model.Ir
namespace SonicSpec.Ir
open SonicSpec SonicSpec.Go SonicSpec.Enc

/-- compiler.go:188-197 (`OP_int()` = OP_i64 on amd64) -/
def intOp (bits : Nat) : Instr :=
  if bits == 8 then .i8 else if bits == 16 then .i16 else if bits == 32 then .i32 else .i64

/-- compiler.go:198-209 -/
def uintOp (bits : Nat) : Instr :=
  if bits == 8 then .u8 else if bits == 16 then .u16 else if bits == 32 then .u32 else .u64

def isZeroOp (bits : Nat) (tgt : Nat) : Instr :=
  if bits == 8 then .isZero1 tgt else if bits == 16 then .isZero2 tgt else if bits == 32 then .isZero4 tgt else .isZero8 tgt

/-- compiler.go:603 compileStructFieldEmpty (not reached for struct and array kinds, :478) -/
def emptyTest : GoType → Option (Nat → Instr)
  | .bool => some .isZero1
  | .int b | .uint b => some (isZeroOp b)
  | .f32 => some .isZero4
  | .f64 => some .isZero8
  | .str | .num => some .isNilP1
  | .any | .ptr _ => some .isNil
  | .map _ _ => some .isZeroMap
  | .sl _ | .bytes | .raw => some .isNilP1
  | .arr _ _ | .st _ | .lib _ => none

/-- compiler.go:648 compileStructFieldOmitNilPtr (option EncOnlyOmitNull) -/
def nilTest : GoType → Option (Nat → Instr)
  | .any | .ptr _ | .map _ _ | .sl _ | .bytes | .raw => some .isNil
  | _ => none

/-- the `omitempty` test of a field (compiler.go:478-488) -/
def omitTest (co : COpts) (f : Field) (t : GoType) : Option (Nat → Instr) :=
  if f.omitEmpty then (if co.encOnlyOmitNull then nilTest t else emptyTest t) else none

/-- compiler.go:462-466: an `omitempty` array of length 0 emits nothing at all -/
def skipField (f : Field) : GoType → Bool
  | .arr 0 _ => f.omitEmpty
  | _ => false

/-- compiler.go:296 compileMapBodyKey / :310 compileMapBodyTextKey (`Program.Key`: the number between two quotes).
    Other key kinds make the real compiler fail with an error (`keyOK`). -/
def keyCode : GoType → Program
  | .str => [.str]
  | .num => [.number]
  | .bool => [.byte 34, .bool, .byte 34]
  | .int b => [.byte 34, intOp b, .byte 34]
  | .uint b => [.byte 34, uintOp b, .byte 34]
  | .f32 => [.byte 34, .f32, .byte 34]
  | .f64 => [.byte 34, .f64, .byte 34]
  | _ => []

def keyOK : GoType → Bool
  | .str | .num | .bool | .int _ | .uint _ | .f32 | .f64 => true
  | _ => false

def isStrT : GoType → Bool
  | .str => true
  | _ => false

/-- compiler.go:522 compileStructFieldStr, given the code of the field's type (`whole`) and of the
    pointed-to type (`elem`) as functions of their start position -/
def strCode (t : GoType) (whole elem : Nat → Program) (pc : Nat) : Program :=
  match t with
  | .ptr e =>
    if stringable e then
      -- :579 dereference, :587 quote or the value between quotes, :594 the null case
      let inner := if isStrT e then [Instr.quote] else [Instr.byte 34] ++ elem (pc + 3) ++ [Instr.byte 34]
      [Instr.isNil (pc + 2 + inner.length + 1), Instr.deref] ++ inner ++ [Instr.goto (pc + 2 + inner.length + 2), Instr.null]
    else whole pc
  | t =>
    if stringable t then
      (if isStrT t then [Instr.quote] else [Instr.byte 34] ++ whole (pc + 1) ++ [Instr.byte 34])
    else whole pc

/-- compiler.go:413-419: the elements after the first, `k` to go, element `i` next -/
def arrRest (f : Nat → Program) (size : Nat) : Nat → Nat → Nat → Program
  | 0, _, _ => []
  | k+1, i, pc =>
    let c := f (pc + 2)
    [Instr.byte 44, Instr.index i (i * size)] ++ c ++ [Instr.load] ++ arrRest f size k (i + 1) (pc + 2 + c.length + 1)

/-- one iteration of the loop of compileStructBody (compiler.go:457-515) for a field the resolver kept: `cv` is the
    code of the field's type, `ce` of the type it points to, both as functions of their start position -/
def fieldCode (co : COpts) (f : Field) (t : GoType) (cv ce : Nat → Program) (i off pc : Nat) : Program :=
  if skipField f t then []                                   -- :462 "omitempty" for arrays
  else
    let te := omitTest co f t
    let ntest := (if te.isSome then 1 else 0) + (if f.omitZero then 1 else 0)
    let vpc := pc + 1 + ntest + 3
    let val := if f.quoted then strCode t cv ce vpc else cv vpc            -- :506
    let done := vpc + val.length                                           -- :513 `p.Rel(s)`: the skipping jumps land on OP_load
    [Instr.index i off] ++                                                 -- :469 (one offset: no embedded structs in the universe)
      ((match te with | some mk => [mk done] | none => []) ++              -- :478
       (if f.omitZero then [Instr.isZero done] else [])) ++                -- :490
      [Instr.condTestc (vpc - 1), Instr.byte 44, Instr.key f.name] ++      -- :496-503
      val ++ [Instr.load]                                                  -- :514

/-! ### `Compiler.tab` and named struct types.
    `tab` is `Compiler.tab` (compiler.go:93): the types whose compilation is in progress (compileRec, :176, enters every
    type); meeting one of them again is OP_recurse (compileOne, :130).  A type can be met inside itself only through a
    NAMED type: `(lib NAME)` with `Enc.libStruct NAME = some fields` is a named Go struct type (go/harness types.go
    `Rec`, `Tree`: recursive through a pointer, a slice and a map; `*Rec` contains `Rec` contains `*Rec`).  The test is
    made where it can succeed - at the composite types; a scalar has nothing inside it.
    The body of a named type is supplied by the parameter `lib` (`LibCode`), which `libK` below defines level by
    level: each unfolding puts the name into `tab`, so as many levels as there are names suffice (`libLeft`). -/

/-- the callback library types of go/harness (types.go, ops_enc.go): `(json, valueReceiver)` - json.Marshaler or
    encoding.TextMarshaler, implemented on the value or on the pointer -/
def cbKind : String → Option (Bool × Bool)
  | "MV" | "LJ" => some (true, true)
  | "MP" | "LJP" => some (true, false)
  | "TV" | "LT" => some (false, true)
  | "TP" => some (false, false)
  | _ => none

/-- compiler.go:137 tryCompileMarshaler for the named type `n` itself: through a pointer (`pv`) the `_p` instruction on `*n`
    (the pointer type has every method), else the value-receiver instruction; `none`: a pointer-receiver type that is
    not addressable has no usable method and is compiled as the plain struct it is (outside the model) -/
def cbCode (n : String) (pv : Bool) : Option Program :=
  match cbKind n with
  | none => none
  | some (json, valueRecv) =>
    if pv then some [if json then Instr.marshalP (.ptr (.lib n)) else Instr.marshalTextP (.ptr (.lib n))]
    else if valueRecv then some [if json then Instr.marshal (.lib n) else Instr.marshalText (.lib n)]
    else none

/-- compiler.go:696 compileMarshaler for `*n`: nil is `null`, else the method is called through the pointer -/
def cbPtrCode (t : GoType) (pc : Nat) : Option Program :=
  match t with
  | .lib n =>
    match cbKind n with
    | some (json, _) =>
      some [Instr.isNil (pc + 3), if json then Instr.marshal (.ptr (.lib n)) else Instr.marshalText (.ptr (.lib n)), Instr.goto (pc + 4), Instr.null]
    | none => none
  | _ => none

mutual
/-- identity of Go types as far as the universe distinguishes them -/
def typeEq : GoType → GoType → Bool
  | .bool, .bool | .f32, .f32 | .f64, .f64 | .str, .str | .num, .num | .bytes, .bytes | .raw, .raw | .any, .any => true
  | .int a, .int b | .uint a, .uint b => a == b
  | .sl a, .sl b | .ptr a, .ptr b => typeEq a b
  | .arr n a, .arr m b => n == m && typeEq a b
  | .map k a, .map l b => typeEq k l && typeEq a b
  | .st fs, .st gs => fieldsEq fs gs
  | .lib a, .lib b => a == b
  | _, _ => false
def fieldsEq : List (String × Option Bytes × GoType) → List (String × Option Bytes × GoType) → Bool
  | [], [] => true
  | (n, tg, t) :: fs, (m, ug, u) :: gs => n == m && tg == ug && typeEq t u && fieldsEq fs gs
  | _, _ => false
end

/-- `self.tab[vt]` -/
def tabHas (tab : List GoType) (T : GoType) : Bool := tab.any (typeEq T)

/-- code of the named struct type `n` at position `pc`, depth `sp`, `tab` already holding the name; `none`: not a named struct -/
abbrev LibCode := List GoType → String → Nat → Nat → Bool → Option Program

/-- compiler.go:435: out of line when nested too deep, the program too long or the struct too wide -/
def cutOff (co : COpts) (pc sp nfields : Nat) : Bool :=
  decide (sp ≥ co.maxInlineDepth) || decide (pc ≥ maxIlbuf) || (decide (sp > 0) && decide (nfields ≥ maxFields))

mutual
/-- compileOne / compileRec / compileOps (compiler.go:129-231) for a type met at position `pc` -/
def code (co : COpts) (lib : LibCode) (tab : List GoType) (pc sp : Nat) (pv : Bool) : GoType → Program
  | .bool => [.bool]
  | .int b => [intOp b]
  | .uint b => [uintOp b]
  | .f32 => [.f32]
  | .f64 => [.f64]
  | .str => [.str]                                    -- :426 compileString
  | .num => [.number]
  | .any => [.eface]                                  -- :673 compileInterface, no methods
  | .raw => [.marshal .raw]                           -- :147 json.RawMessage is a json.Marshaler
  | .bytes => [.isNil (pc + 3), .bin, .goto (pc + 4), .emptyArr]      -- :368 compileSlice, :373 IsSimpleByte
  | .lib n =>
    if tabHas tab (.lib n) then [.recurse (.lib n) pv]
    else match cbCode n pv with
      | some c => c                                   -- :170 tryCompileMarshaler
      | none => (lib (.lib n :: tab) n pc sp pv).getD [.unsupported (.lib n)]
  | .sl t =>
    if tabHas tab (.sl t) then [.recurse (.sl t) pv]
    else if isU8 t then [.isNil (pc + 3), .bin, .goto (pc + 4), .emptyArr]
    else
      -- :380 compileSliceArray inside :233 compileNil
      let c1 := code co lib (.sl t :: tab) (pc + 6) (sp + 1) true t
      let j := pc + 6 + c1.length
      let c2 := code co lib (.sl t :: tab) (j + 2) (sp + 1) true t
      let i := j + 2 + c2.length + 1
      [.isNil (i + 3), .byte 91, .isNil (i + 1), .save false, .sliceLen, .sliceNext i t] ++ c1 ++
        [.sliceNext i t, .byte 44] ++ c2 ++ [.goto j, .drop, .byte 93, .goto (i + 4), .emptyArr]
  | .arr n t =>
    if tabHas tab (.arr n t) then [.recurse (.arr n t) pv]
    else
      -- :402 compileArray
      let f := fun pc' => code co lib (.arr n t :: tab) pc' (sp + 1) pv t
      let first := if n == 0 then [] else f (pc + 2) ++ [Instr.load]
      [.byte 91, .save (n != 0)] ++ first ++ arrRest f (tsize t) (n - 1) 1 (pc + 2 + first.length) ++ [.drop, .byte 93]
  | .ptr t =>
    if tabHas tab (.ptr t) then [.recurse (.ptr t) pv]
    else match cbPtrCode t pc with
    | some c => c                                     -- :147 / :159 `*n` implements the interface: compileMarshaler
    | none =>
      -- :244 compilePtr, :248 compilePtrBody
      let b := code co lib (.ptr t :: tab) (pc + 3) (sp + 1) true t
      [.isNil (pc + 3 + b.length + 2), .save false, .deref] ++ b ++ [.drop, .goto (pc + 3 + b.length + 3), .null]
  | .map k t =>
    if tabHas tab (.map k t) then [.recurse (.map k t) pv]
    else
      -- :256 compileMap, :260 compileMapBody
      let kc := keyCode k
      let u := pc + 8 + kc.length
      let v1 := code co lib (.map k t :: tab) (u + 2) (sp + 2) false t
      let j := u + 2 + v1.length
      let v := j + 3 + kc.length
      let v2 := code co lib (.map k t :: tab) (v + 2) (sp + 2) false t
      let i := v + 2 + v2.length + 1
      [.isNil (i + 4), .byte 123, .isZeroMap (i + 2), .save false, .mapIter (.map k t), .save false, .mapCheckKey i, .mapWriteKey u] ++ kc ++
        [.byte 58, .mapValueNext] ++ v1 ++ [.mapCheckKey i, .byte 44, .mapWriteKey v] ++ kc ++ [.byte 58, .mapValueNext] ++ v2 ++
        [.goto j, .mapStop, .drop2, .byte 125, .goto (i + 5), .emptyObj]
  | .st fs =>
    if tabHas tab (.st fs) then [.recurse (.st fs) pv]
    -- :434 compileStruct
    else if cutOff co pc sp fs.length then [.recurse (.st fs) pv]
    else
      match keepList fs with
      | none => [.unsupported (.st fs)]
      | some ks =>
        -- :449 compileStructBody
        [.byte 123, .save false, .condSet] ++ codeFields co lib (.st fs :: tab) sp pv fs ks (offsets fs 0) 0 (pc + 3) ++ [.drop, .byte 125]
/-- the loop of compileStructBody (compiler.go:457-515) over the declared fields, `ks` the resolver's
    verdict on each, `offs` their offsets, `i` the selector of the next one -/
def codeFields (co : COpts) (lib : LibCode) (tab : List GoType) (sp : Nat) (pv : Bool) :
    List (String × Option Bytes × GoType) → List (Option Field) → List Nat → Nat → Nat → Program
  | (_, _, t) :: fs, k :: ks, off :: offs, i, pc =>
    let cv := fun pc' => code co lib tab pc' (sp + 1) pv t
    let ce := fun pc' => match t with
      | .ptr e => code co lib tab pc' (sp + 1) pv e
      | _ => []
    let here : Program :=
      match k with
      | none => []
      | some f => fieldCode co f t cv ce i off pc
    here ++ codeFields co lib tab sp pv fs ks offs (i + 1) (pc + here.length)
  | _, _, _, _, _ => []
end

def libNames : List String := ["Rec", "Tree"]

/-- how many named types are not being compiled yet -/
def libLeft (tab : List GoType) : Nat := (libNames.filter fun n => !tabHas tab (.lib n)).length

/-- compileStruct for a named struct type whose name has just been put into `tab` (compileRec, compiler.go:176), with
    `k` levels of unfolding of further names left -/
def libK (co : COpts) : Nat → LibCode
  | 0 => fun _ _ _ _ _ => none
  | k + 1 => fun tab n pc sp pv =>
    (libStruct n).map fun fs =>
      if cutOff co pc sp fs.length then [Instr.recurse (.lib n) pv]
      else
        match keepList fs with
        | none => [Instr.unsupported (.lib n)]
        | some ks =>
          [Instr.byte 123, Instr.save false, Instr.condSet] ++
            codeFields co (libK co k) tab sp pv fs ks (offsets fs 0) 0 (pc + 3) ++ [Instr.drop, Instr.byte 125]

/-- `Compiler.Compile` (compiler.go:123): `compileOne(&ret, 0, vt, pv)` on an empty program -/
def compile (co : COpts) (T : GoType) (pv : Bool) : Program := code co (libK co libNames.length) [] 0 0 pv T

mutual
/-- the `p.Tag(sp)` calls (compilePtrBody, compileMapBody `sp+1`, compileSliceArray, compileArray,
    compileStructBody) all pass, and every map key kind is one compileMapBodyTextKey accepts -/
def tagOK (co : COpts) (sp : Nat) : GoType → Bool
  | .sl t => isU8 t || (sp < maxStack && tagOK co (sp + 1) t)
  | .arr _ t => sp < maxStack && tagOK co (sp + 1) t
  | .ptr t => sp < maxStack && tagOK co (sp + 1) t
  | .map k t => sp + 1 < maxStack && keyOK k && tagOK co (sp + 2) t
  | .st fs => sp ≥ co.maxInlineDepth || (sp > 0 && fs.length ≥ maxFields) || (sp < maxStack && tagOKF co (sp + 1) fs)
  | _ => true
def tagOKF (co : COpts) (sp : Nat) : List (String × Option Bytes × GoType) → Bool
  | [] => true
  | (_, _, t) :: r => tagOK co sp t && tagOKF co sp r
end

mutual
/-- no callback type inside (library types with methods, json.RawMessage): the part of the universe `compile` speaks about -/
def noLib : GoType → Bool
  | .lib n => libNames.contains n || (cbKind n).isSome
  | .raw => false
  | .sl t | .arr _ t | .ptr t => noLib t
  | .map k t => noLib k && noLib t
  | .st fs => noLibF fs
  | _ => true
def noLibF : List (String × Option Bytes × GoType) → Bool
  | [] => true
  | (_, _, t) :: r => noLib t && noLibF r
end

end SonicSpec.Ir
