/-
  Core G (C08): `ProgramCache` (pcache.go:136-179) as an interleaving transition system.

  Shared state: the atomically published table `pub` (`ProgramCache.p`, only touched through
  `atomic.LoadPointer/StorePointer`) and the mutex `ProgramCache.m`.  Every thread runs a script of
  cache calls; one `step s t` is one atomic action of thread `t`; an execution is an arbitrary
  `List Tid` (any number of threads, any interleaving, including starvation and blocking on the lock).

      Get      (pcache.go:154):  atomic load  →  pure lookup on the snapshot
      Compute  (pcache.go:158):  Lock → atomic load → lookup (re-check) → compute → atomic load →
                                 add on a copy → atomic store → Unlock (deferred)
      find     = `FindOrCompile` (encoder/vars/cache.go:32, jitdec/pools.go:141): Get, then Compute on a miss

  `compile : κ → Option γ` is the deterministic compiler (`none` = compile error: nothing is
  published, the error is returned).  `compiles` is a ghost log of compiler invocations.
-/
import SonicSpec.Model.ConcPMap
namespace SonicSpec.Conc

abbrev Tid := Nat

inductive Op (κ : Type) where
  | get (k : κ)
  | compute (k : κ)
  | find (k : κ)
deriving Repr, DecidableEq

def Op.key {κ : Type} : Op κ → κ
  | .get k => k
  | .compute k => k
  | .find k => k

/-- where a thread stands inside a cache call -/
inductive PC (κ γ : Type) where
  | idle
  | gLoad (op : Op κ)                       -- Get: before `atomic.LoadPointer(&self.p)` (pcache.go:155)
  | gLookup (op : Op κ) (snap : PMap κ γ)   -- Get: `.get(vt)` on the loaded snapshot
  | cLock (op : Op κ)                       -- Compute: before `self.m.Lock()` (pcache.go:163)
  | cCheckLoad (op : Op κ)                  -- lock held: the atomic load of the re-check (pcache.go:167)
  | cCheck (op : Op κ) (snap : PMap κ γ)    -- lock held: lookup of the re-check
  | cCompile (op : Op κ)                    -- lock held: `compute(vt, ex...)` (pcache.go:172)
  | cLoad2 (op : Op κ) (v : γ)              -- lock held: `atomic.LoadPointer(&self.p)` (pcache.go:177)
  | cStore (op : Op κ) (v : γ) (m' : PMap κ γ) -- lock held: `.add` done on the copy, before `StorePointer`
  | cUnlock (op : Op κ) (r : Option γ)      -- lock held: deferred `self.m.Unlock()`

structure Thread (κ γ : Type) where
  pc : PC κ γ
  todo : List (Op κ)
  done : List (Op κ × Option γ)   -- completed calls with their results, newest first

structure State (κ γ : Type) where
  pub : PMap κ γ
  mutex : Option Tid
  threads : Tid → Thread κ γ
  compiles : List κ               -- ghost: keys handed to the compiler, newest first

variable {κ γ : Type} [DecidableEq κ]

def State.upd (s : State κ γ) (t : Tid) (th : Thread κ γ) (pub : PMap κ γ) (mx : Option Tid)
    (cs : List κ) : State κ γ :=
  { pub := pub, mutex := mx, compiles := cs,
    threads := fun t' => if t' = t then th else s.threads t' }

def Thread.goto (th : Thread κ γ) (pc : PC κ γ) : Thread κ γ := { th with pc := pc }

def Thread.finish (th : Thread κ γ) (op : Op κ) (r : Option γ) : Thread κ γ :=
  { th with pc := .idle, done := (op, r) :: th.done }

/-- first program counter of a call -/
def startPC (op : Op κ) : PC κ γ :=
  match op with
  | .compute _ => .cLock op
  | _ => .gLoad op

/-- one atomic action of thread `t` (a thread that cannot move - blocked on the mutex, or out of
    work - leaves the state unchanged) -/
def step (hash : κ → Nat) (compile : κ → Option γ) (s : State κ γ) (t : Tid) : State κ γ :=
  let th := s.threads t
  match th.pc with
  | .idle =>
    match th.todo with
    | [] => s
    | op :: rest => s.upd t { th with pc := startPC op, todo := rest } s.pub s.mutex s.compiles
  | .gLoad op => s.upd t (th.goto (.gLookup op s.pub)) s.pub s.mutex s.compiles
  | .gLookup op snap =>
    match PMap.get hash snap op.key with
    | some v => s.upd t (th.finish op (some v)) s.pub s.mutex s.compiles
    | none =>
      match op with
      | .get _ => s.upd t (th.finish op none) s.pub s.mutex s.compiles
      | _ => s.upd t (th.goto (.cLock op)) s.pub s.mutex s.compiles
  | .cLock op =>
    match s.mutex with
    | none => s.upd t (th.goto (.cCheckLoad op)) s.pub (some t) s.compiles
    | some _ => s
  | .cCheckLoad op => s.upd t (th.goto (.cCheck op s.pub)) s.pub s.mutex s.compiles
  | .cCheck op snap =>
    match PMap.get hash snap op.key with
    | some v => s.upd t (th.goto (.cUnlock op (some v))) s.pub s.mutex s.compiles
    | none => s.upd t (th.goto (.cCompile op)) s.pub s.mutex s.compiles
  | .cCompile op =>
    match compile op.key with
    | some v => s.upd t (th.goto (.cLoad2 op v)) s.pub s.mutex (op.key :: s.compiles)
    | none => s.upd t (th.goto (.cUnlock op none)) s.pub s.mutex (op.key :: s.compiles)
  | .cLoad2 op v => s.upd t (th.goto (.cStore op v (PMap.add hash s.pub op.key v))) s.pub s.mutex s.compiles
  | .cStore op v m' => s.upd t (th.goto (.cUnlock op (some v))) m' s.mutex s.compiles
  | .cUnlock op r => s.upd t (th.finish op r) s.pub none s.compiles

/-- an execution: the schedule names the thread that moves next -/
def run (hash : κ → Nat) (compile : κ → Option γ) (s : State κ γ) (sched : List Tid) : State κ γ :=
  sched.foldl (step hash compile) s

/-- initial state: empty table of capacity `2^e` (`CreateProgramCache`), lock free, every thread idle
    with its script -/
def init (e : Nat) (progs : Tid → List (Op κ)) : State κ γ :=
  { pub := PMap.empty (2 ^ e), mutex := none, compiles := [],
    threads := fun t => { pc := .idle, todo := progs t, done := [] } }

/-- the specification the cache implements: a partial function key → codec -/
abbrev Cache (κ γ : Type) := κ → Option γ

/-! ### sync.Pool hand-off (jitdec/pools.go:97-111, encoder/vars/stack.go): objects are numbered;
    `free` is the pool's content, `held` the objects currently in a thread's hands -/

structure Pool where
  free : List Nat
  held : List (Tid × Nat)
  fresh : Nat             -- next never-used object (`new(_Stack)`)
deriving Repr

inductive PoolAct where
  | get (t : Tid)             -- `newStack()`: `stackPool.Get()`, allocate when the pool is empty
  | put (t : Tid) (o : Nat)   -- `freeStack(p)`: enabled only for an object the thread holds
  | drop                      -- the GC empties the pool
deriving Repr

def Pool.step (p : Pool) : PoolAct → Pool
  | .get t =>
    match p.free with
    | o :: rest => { p with free := rest, held := (t, o) :: p.held }
    | [] => { p with held := (t, p.fresh) :: p.held, fresh := p.fresh + 1 }
  | .put t o =>
    if (t, o) ∈ p.held then { p with free := o :: p.free, held := p.held.erase (t, o) } else p
  | .drop => { p with free := [] }

def Pool.init : Pool := { free := [], held := [], fresh := 0 }

def Pool.run (acts : List PoolAct) : Pool := acts.foldl Pool.step Pool.init

end SonicSpec.Conc
