/-
  Core E (part 3): `run`, the interpreter of the encoder IR, after /repo/internal/encoder/vm/vm.go
  `Execute` (one `case` of its switch per instruction, cited below) over an abstract machine:

    * the pointer register `p` is a cursor into a `GoVal`: `val v` = the address of a location holding `v`,
      `elems xs` = the address of the first of the consecutive locations holding `xs` (slice data, array body);
      offsets become selectors (`index sel _`), `*p` becomes `deref`;
    * `x` (remaining slice length), `f` (the two bits `_S_cond`, `_S_init`), `q` (the map iterator: the entries
      still to be visited, current entry first) are the other three registers; the state stack
      (vars/stack.go) holds saved register sets, at most `maxStack` (= vars.MaxStack, Generated/Consts);
    * a map value lists its entries in the order Go's iteration yields them in this run; with SortMapKeys the
      iterator holds the rendered key texts sorted bytewise (alg/mapiter.go IteratorStart);
    * OP_recurse / OP_eface re-enter through `EncodeTypedPointer` (vm/stbus.go:30): the program of the
      (named / dynamic) type is `compile`d and run on the SAME stack with fresh registers; the pointer-value
      bit of the flags word travels with the call (vm.go:95-99 sets it, :194 passes the flags on unchanged).

  Leaves.  The formatting primitives are those of the specification (`Enc.intDec`, `fmtF64`, `quoteLit`, `b64`,
  `numberLit`): their agreement with the routines the two back ends call (native vs. internal/encoder/alg) is the
  subject of C19/C20 and of the leaf theorems in Props/C12.  The two post-passes of encoder.go:223 encodeFinish
  (HTMLEscape, utf8 CorrectWith), which only change bytes inside string literals, are folded into the string
  leaves: `str`, `key` and the sorted-key writer emit the literal the post-passes leave behind; `quote` (the
  `,string` option on a string) applies the post-pass of the C20 model (`Str.encodeFinish`) to the natively
  double-quoted literal (`Str.quoteD`), which is NOT what encoding/json writes (known finding C03-string-opt-inner-literal).

  Out of fuel is `none`; results are `ok (stack, buffer)`, or an error: one of the specification's (`enc e`),
  `tooDeep` (vars.ERR_too_deep from `Stack.Push`), or `stuck` (the cursor does not hold what the instruction
  reads: cannot happen for a program compiled for the value's type).
-/
import SonicSpec.Model.IrCompile
import SonicSpec.Model.Str
namespace SonicSpec.Ir
open SonicSpec SonicSpec.Go SonicSpec.Enc SonicSpec.Json

inductive XErr where
  | enc (e : EErr)
  | tooDeep
  | stuck
deriving Repr, DecidableEq, Inhabited

inductive Cur where
  | val (v : GoVal)
  | elems (xs : List GoVal)
deriving Repr, Inhabited

/-- what the location under the cursor holds -/
def Cur.get : Cur → Option GoVal
  | .val v => some v
  | .elems (x :: _) => some x
  | .elems [] => none

abbrev Iter := List (GoVal × GoVal)

/-- vars/stack.go:29 `State` -/
structure Regs where
  x : Nat
  cond : Bool
  init : Bool
  p : Cur
  q : Option Iter
deriving Repr, Inhabited

abbrev Stack := List Regs

def Regs.start (c : Cur) : Regs := { x := 0, cond := false, init := false, p := c, q := none }

/-! ### sorted iteration (alg/mapiter.go:221 IteratorStart): keys rendered to text, pairs sorted by it -/

def iterKey : GoVal × GoVal → Bytes
  | (.str s, _) => s
  | _ => []

def insertIt (e : GoVal × GoVal) : Iter → Iter
  | [] => [e]
  | f :: r => if bytesLe (iterKey e) (iterKey f) then e :: f :: r else f :: insertIt e r

def sortIt : Iter → Iter
  | [] => []
  | e :: r => insertIt e (sortIt r)

/-- alg/mapiter.go:78 `append` / :95 appendGeneric: the text of a key (the specification's, plus `bool`) -/
def keyTextM : GoType → GoVal → Option Bytes
  | .bool, .bool b => some (if b then ascii "true" else ascii "false")
  | k, a => keyText k a

/-- alg/mapiter.go:78 `append`: the key's text becomes the key the iterator shows -/
def renderKeys (k : GoType) : Iter → Option Iter
  | [] => some []
  | (a, v) :: r =>
    match keyTextM k a, renderKeys k r with
    | some ks, some rs => some ((.str ks, v) :: rs)
    | _, _ => none

/-- appendGeneric has no case for the float kinds: `vars.Error_type` -/
def isFloatT : GoType → Bool
  | .f32 | .f64 => true
  | _ => false

/-- what the callback of a library value returns (go/harness types.go, ops_enc.go): an opaque leaf of the machine as of
    the specification (`Enc.encV` has the same texts) -/
def callbackText : String → GoVal → Option Bytes
  | "MV", .st [.int n] => some (ascii "{\"mv\":" ++ intDec n ++ [125])
  | "MP", .st [.int n] => some (ascii "{\"mp\":" ++ intDec n ++ [125])
  | "TV", .st [.int n] => some (ascii "tv" ++ intDec n)
  | "TP", .st [.int n] => some (ascii "tp" ++ intDec n)
  | "LJ", .lib m => some m
  | "LJP", .lib m => some m
  | "LT", .lib t => some t
  | _, _ => none

/-- the value the method is called on: the instruction's type operand is the named type (the cursor holds the value) or
    a pointer to it (OP_marshal / OP_marshal_text on `*n`: the cursor holds the pointer, vm.go:243 `convT2I(p, true, ..)`;
    OP_marshal_p / OP_marshal_text_p: the cursor IS the pointer, vm.go:253) -/
def callbackArg (ptrOp : Bool) : GoType → GoVal → Option (String × GoVal)
  | .lib n, v => some (n, v)
  | .ptr (.lib n), v => if ptrOp then some (n, v) else match v with | .ptr w => some (n, w) | _ => none
  | _, _ => none

inductive StepRes where
  | next (pc : Nat) (r : Regs) (s : Stack) (b : Bytes)
  | err (e : XErr)
  | call (T : GoType) (pv : Bool) (c : Cur)

def floatOut (o : EncOpts) (lit : Option Bytes) (pc : Nat) (r : Regs) (s : Stack) (b : Bytes) : StepRes :=
  match floatLit o lit with
  | .ok l => .next (pc + 1) r s (b ++ l)
  | .error e => .err (.enc e)

def jumpIf (c : Bool) (tgt pc : Nat) (r : Regs) (s : Stack) (b : Bytes) : StepRes :=
  if c then .next tgt r s b else .next (pc + 1) r s b

/-- one instruction (vm.go:68-355); `pc` is the index of `ins` -/
def step (o : EncOpts) (ins : Instr) (pc : Nat) (r : Regs) (s : Stack) (b : Bytes) : StepRes :=
  match ins with
  | .goto t => .next t r s b                                                  -- :69
  | .byte c => .next (pc + 1) r s (b ++ [c])                                  -- :72
  | .text t => .next (pc + 1) r s (b ++ t)                                    -- :75
  | .key n => .next (pc + 1) r s (b ++ 34 :: (nameKey o n ++ [34, 58]))       -- :75, the text being Quote(name)+":"
  | .deref =>                                                                 -- :78
    match r.p.get with
    | some (.ptr v) => .next (pc + 1) { r with p := .val v } s b
    | _ => .err .stuck
  | .index sel _ =>                                                           -- :80
    match r.p.get with
    | some (.st vs) => (match vs[sel]? with
      | some v => .next (pc + 1) { r with p := .val v } s b
      | none => .err .stuck)
    | some (.arr xs) => (match xs[sel]? with
      | some v => .next (pc + 1) { r with p := .val v } s b
      | none => .err .stuck)
    | _ => .err .stuck
  | .load =>                                                                  -- :82 (f is not reloaded)
    match s with
    | fr :: _ => .next (pc + 1) { r with x := fr.x, p := fr.p, q := fr.q } s b
    | [] => .err .stuck
  | .save enter =>                                                            -- :85, vars/stack.go:85 Push
    if s.length ≥ maxStack then .err .tooDeep
    else if enter then
      match r.p.get with
      | some (.arr xs) => .next (pc + 1) { r with p := .elems xs } (r :: s) b
      | _ => .err .stuck
    else .next (pc + 1) r (r :: s) b
  | .drop =>                                                                  -- :89
    match s with
    | fr :: s' => .next (pc + 1) fr s' b
    | [] => .err .stuck
  | .drop2 =>                                                                 -- :91
    match s with
    | _ :: fr :: s' => .next (pc + 1) fr s' b
    | _ => .err .stuck
  | .recurse T pv => .call T pv r.p                                           -- :94
  | .isNil t =>                                                               -- :112
    match r.p.get with
    | some v => jumpIf (match v with | .nil => true | _ => false) t pc r s b
    | none => .err .stuck
  | .isNilP1 t =>                                                             -- :117 (the second word: a length, or an interface's data)
    match r.p.get with
    | some .nil => .next t r s b
    | some (.str x) | some (.num x) | some (.bytes x) | some (.raw x) => jumpIf x.isEmpty t pc r s b
    | some (.sl xs) => jumpIf xs.isEmpty t pc r s b
    | _ => .err .stuck
  | .null => .next (pc + 1) r s (b ++ nullLit)                                -- :122
  | .str =>                                                                   -- :124 alg.Quote, then the post-passes
    match r.p.get with
    | some (.str x) => .next (pc + 1) r s (b ++ quoteLit o.escapeHTML o.validateString x)
    | _ => .err .stuck
  | .bool =>                                                                  -- :127
    match r.p.get with
    | some (.bool x) => .next (pc + 1) r s (b ++ render (.bool x))
    | _ => .err .stuck
  | .i8 | .i16 | .i32 | .i64 =>                                               -- :133-144 alg.I64toa
    match r.p.get with
    | some (.int n) => .next (pc + 1) r s (b ++ intDec n)
    | _ => .err .stuck
  | .u8 | .u16 | .u32 | .u64 =>                                               -- :145-156 alg.U64toa
    match r.p.get with
    | some (.uint n) => .next (pc + 1) r s (b ++ natDec n)
    | _ => .err .stuck
  | .f32 =>                                                                   -- :157
    match r.p.get with
    | some (.f32 x) => floatOut o (fmtF32 x) pc r s b
    | _ => .err .stuck
  | .f64 =>                                                                   -- :167
    match r.p.get with
    | some (.f64 x) => floatOut o (fmtF64 x) pc r s b
    | _ => .err .stuck
  | .bin =>                                                                   -- :177 rt.EncodeBase64
    match r.p.get with
    | some (.bytes x) => .next (pc + 1) r s (b ++ 34 :: (b64 x ++ [34]))
    | some (.sl xs) => (match u8s xs with
      | some x => .next (pc + 1) r s (b ++ 34 :: (b64 x ++ [34]))
      | none => .err .stuck)
    | _ => .err .stuck
  | .quote =>                                                                 -- :180 alg.Quote(double), then the post-passes
    match r.p.get with
    | some (.str x) => .next (pc + 1) r s (b ++ Str.encodeFinish o.escapeHTML o.validateString (Str.quoteD x))
    | _ => .err .stuck
  | .number =>                                                                -- :183
    match r.p.get with
    | some (.num x) => (match numberLit x with
      | .ok l => .next (pc + 1) r s (b ++ l)
      | .error e => .err (.enc e))
    | _ => .err .stuck
  | .eface =>                                                                 -- :192, stbus.go:31 EncodeNil
    match r.p.get with
    | some .nil => .next (pc + 1) r s (b ++ nullLit)
    | some (.any T w) => .call T false (.val w)
    | _ => .err .stuck
  | .iface => .err .stuck                                                     -- :198 (no interface with methods in the universe)
  | .isZeroMap t =>                                                           -- :204
    match r.p.get with
    | some .nil => .next t r s b
    | some (.map kvs) => jumpIf kvs.isEmpty t pc r s b
    | _ => .err .stuck
  | .mapIter T =>                                                             -- :210 alg.IteratorStart
    match r.p.get, T with
    | some (.map kvs), .map k _ =>
      if o.sortMapKeys && !kvs.isEmpty then
        match renderKeys k kvs with
        | some it => .next (pc + 1) { r with q := some (sortIt it) } s b
        | none => .err (if isFloatT k then .enc .unsupportedType else .stuck)
      else .next (pc + 1) { r with q := some kvs } s b
    | _, _ => .err .stuck
  | .mapStop => .next (pc + 1) { r with q := none } s b                       -- :218
  | .mapValueNext =>                                                          -- :222
    match r.q with
    | some ((_, v) :: rest) => .next (pc + 1) { r with p := .val v, q := some rest } s b
    | _ => .err .stuck
  | .mapCheckKey t =>                                                         -- :226
    match r.q with
    | some [] => .next t r s b
    | some ((k, _) :: _) => .next (pc + 1) { r with p := .val k } s b
    | none => .err .stuck
  | .mapWriteKey t =>                                                         -- :257
    if o.sortMapKeys then
      match r.p.get with
      | some (.str x) => .next t r s (b ++ quoteLit o.escapeHTML o.validateString x)
      | _ => .err .stuck
    else .next (pc + 1) r s b
  | .sliceLen =>                                                              -- :264
    match r.p.get with
    | some (.sl xs) => .next (pc + 1) { r with x := xs.length, p := .elems xs, init := true } s b
    | _ => .err .stuck
  | .sliceNext t _ =>                                                         -- :270
    if r.x == 0 then .next t r s b
    else if r.init then .next (pc + 1) { r with x := r.x - 1, init := false } s b
    else
      match r.p with
      | .elems (_ :: rest) => .next (pc + 1) { r with x := r.x - 1, p := .elems rest } s b
      | _ => .err .stuck
  | .condSet => .next (pc + 1) { r with cond := true } s b                    -- :281
  | .condTestc t =>                                                           -- :283
    if r.cond then .next t { r with cond := false } s b else .next (pc + 1) r s b
  | .isZero t =>                                                              -- :289 prim.IsZero (reflect IsZero)
    match r.p.get with
    | some v => jumpIf (isZeroV v) t pc r s b
    | none => .err .stuck
  | .isZero1 t | .isZero2 t | .isZero4 t | .isZero8 t =>                      -- :295-314: the bytes of a scalar are all zero
    match r.p.get with
    | some (.bool x) => jumpIf (!x) t pc r s b
    | some (.int n) => jumpIf (n == 0) t pc r s b
    | some (.uint n) => jumpIf (n == 0) t pc r s b
    | some (.f64 x) => jumpIf (x == 0) t pc r s b
    | some (.f32 x) => jumpIf (x == 0) t pc r s b
    | _ => .err .stuck
  | .emptyArr => .next (pc + 1) r s (b ++ render (nilSlice o))               -- :315
  | .emptyObj => .next (pc + 1) r s (b ++ render (nilMap o))                 -- :321
  | .marshal T | .marshalP T =>                                               -- :327 / :345 prim.EncodeJsonMarshaler
    match r.p.get with
    | some v =>
      (match callbackArg (match ins with | .marshalP _ => true | _ => false) T v with
      | some (n, w) => (match callbackText n w with
        | some m => (match marshalerOut o m with
          | .ok j => .next (pc + 1) r s (b ++ render j)
          | .error e => .err (.enc e))
        | none => .err .stuck)
      | none => .err .stuck)
    | none => .err .stuck
  | .marshalText T | .marshalTextP T =>                                       -- :233 / :251 prim.EncodeTextMarshaler
    match r.p.get with
    | some v =>
      (match callbackArg (match ins with | .marshalTextP _ => true | _ => false) T v with
      | some (n, w) => (match callbackText n w with
        | some m => (match textOut o m with
          | .ok j => .next (pc + 1) r s (b ++ render j)
          | .error e => .err (.enc e))
        | none => .err .stuck)
      | none => .err .stuck)
    | none => .err .stuck
  | .unsupported _ => .err (.enc .unsupportedType)                            -- :351

/-- vm.go:51 `Execute` with `fuel` iterations of its loop; `fpv` = the pointer-value bit of `flags` -/
def run (o : EncOpts) (co : COpts) : Nat → Bool → Program → Nat → Regs → Stack → Bytes → Option (Except XErr (Stack × Bytes))
  | 0, _, _, _, _, _, _ => none
  | fuel + 1, fpv, P, pc, r, s, b =>
    match P[pc]? with
    | none => some (.ok (s, b))                        -- `pc < pl` fails: return nil
    | some ins =>
      match step o ins pc r s b with
      | .next pc' r' s' b' => run o co fuel fpv P pc' r' s' b'
      | .err e => some (.error e)
      | .call T pv c =>
        -- stbus.go:30 EncodeTypedPointer: FindOrCompile(vt, pv-bit of the flags), Execute on the same stack
        match run o co fuel (fpv || pv) (compile co T (fpv || pv)) 0 (Regs.start c) s b with
        | some (.ok (s', b')) => run o co fuel fpv P (pc + 1) r s' b'
        | other => other

/-- encoder.go:207 encodeInto: a new stack, the value's program, the caller's flags (pointer-value bit clear) -/
def execFuel (fuel : Nat) (o : EncOpts) (co : COpts) (P : Program) (v : GoVal) : Option (Except XErr Bytes) :=
  (run o co fuel false P 0 (Regs.start (.val v)) [] []).map fun r => r.map (·.2)

end SonicSpec.Ir
