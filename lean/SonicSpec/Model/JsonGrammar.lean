/-
  Core A, grammar part (property C02).  Two byte-level grammars of JSON documents, written as inductive
  predicates over `List UInt8`:

  * `Strict`     - RFC 8259, i.e. exactly what `encoding/json.Valid` accepts: string bodies may not contain
                   raw control characters (< 0x20), a backslash must start one of the escapes
                   `\" \\ \/ \b \f \n \r \t \uXXXX`; UTF-8 well-formedness of string contents is NOT required
                   (encoding/json.Valid does not check it either).
  * `Structural` - the same skeleton; a string body is any byte sequence in which a backslash escapes the
                   following byte and no unescaped `"` occurs.

  Both are instances of one grammar `Val SB` that takes the string-body predicate `SB` as a parameter, so
  that "same skeleton" is true by construction.

  The natural number carried by every nonterminal is the number of *frames* the native state machine
  (`fsm_exec`, /repo/native/scanning.h:1714) has on its stack at the highest point while it reads that
  piece of text, counted from the frame of the piece itself (`frames`; see `Val`).  It is a function of
  the text alone.  `depth ≤ frames ≤ depth + 1` (`val_depth`, Proofs/JsonGrammar.lean).

  The grammar is written right-linearly (`ArrBody` = what may follow `[`, `ArrTail` = what may follow an
  element) - the same language as RFC 8259's  `array = [ ws ] | [ elements ]`,
  `elements = element | element , elements`, `element = ws value ws`.
-/
import SonicSpec.Model.JsonTree
namespace SonicSpec.Json

/-- `ws` of RFC 8259: any number of space, tab, line feed, carriage return -/
def AllSpace (w : Bytes) : Prop := ∀ c ∈ w, isSpace c = true

def AllDigits (d : Bytes) : Prop := ∀ c ∈ d, isDigit c = true

/-! ### numbers:  `-? int frac? exp?` -/

/-- `int = 0 | [1-9][0-9]*` -/
inductive IntPart : Bytes → Prop
  | zero : IntPart [48]
  | nz (c : UInt8) (ds : Bytes) : isDigit c = true → c ≠ 48 → AllDigits ds → IntPart (c :: ds)

/-- `frac = "" | . [0-9]+` -/
inductive FracPart : Bytes → Prop
  | none : FracPart []
  | some (ds : Bytes) : ds ≠ [] → AllDigits ds → FracPart (46 :: ds)

/-- `exp = "" | [eE] [+-]? [0-9]+` -/
inductive ExpPart : Bytes → Prop
  | none : ExpPart []
  | unsigned (e : UInt8) (ds : Bytes) : (e = 101 ∨ e = 69) → ds ≠ [] → AllDigits ds → ExpPart (e :: ds)
  | signed (e sg : UInt8) (ds : Bytes) : (e = 101 ∨ e = 69) → (sg = 43 ∨ sg = 45) → ds ≠ [] → AllDigits ds →
      ExpPart (e :: sg :: ds)

/-- a number without its sign -/
inductive NumBody : Bytes → Prop
  | mk (i f e : Bytes) : IntPart i → FracPart f → ExpPart e → NumBody (i ++ (f ++ e))

inductive Number : Bytes → Prop
  | pos (n : Bytes) : NumBody n → Number n
  | neg (n : Bytes) : NumBody n → Number (45 :: n)

/-! ### string bodies (the bytes between the quotes) -/

def isSimpleEsc (e : UInt8) : Bool :=
  e == 34 || e == 92 || e == 47 || e == 98 || e == 102 || e == 110 || e == 114 || e == 116

/-- RFC 8259 / encoding/json.Valid -/
inductive StrictBody : Bytes → Prop
  | nil : StrictBody []
  | plain (c : UInt8) (b : Bytes) : c ≥ 32 → c ≠ 34 → c ≠ 92 → StrictBody b → StrictBody (c :: b)
  | esc (e : UInt8) (b : Bytes) : isSimpleEsc e = true → StrictBody b → StrictBody (92 :: e :: b)
  | uni (h1 h2 h3 h4 : UInt8) (b : Bytes) : isHex h1 = true → isHex h2 = true → isHex h3 = true → isHex h4 = true →
      StrictBody b → StrictBody (92 :: 117 :: h1 :: h2 :: h3 :: h4 :: b)

/-- structural reading: a backslash escapes the next byte, whatever it is; no other constraint than
    "no unescaped quote" -/
inductive LaxBody : Bytes → Prop
  | nil : LaxBody []
  | plain (c : UInt8) (b : Bytes) : c ≠ 34 → c ≠ 92 → LaxBody b → LaxBody (c :: b)
  | esc (c : UInt8) (b : Bytes) : LaxBody b → LaxBody (92 :: c :: b)

/-! ### values -/

mutual
/-- `Val SB k v`: `v` is one JSON value (no surrounding space) whose strings satisfy `SB`;
    reading it needs `k` frames above the ones already on the stack -/
inductive Val (SB : Bytes → Prop) : Nat → Bytes → Prop
  | nul : Val SB 0 [110, 117, 108, 108]
  | tru : Val SB 0 [116, 114, 117, 101]
  | fls : Val SB 0 [102, 97, 108, 115, 101]
  | num (n : Bytes) : Number n → Val SB 0 n
  | str (b : Bytes) : SB b → Val SB 0 (34 :: (b ++ [34]))
  | arr (k : Nat) (t : Bytes) : ArrBody SB k t → Val SB k (91 :: t)
  | obj (k : Nat) (t : Bytes) : ObjBody SB k t → Val SB k (123 :: t)
/-- what may follow `[` -/
inductive ArrBody (SB : Bytes → Prop) : Nat → Bytes → Prop
  | empty (w : Bytes) : AllSpace w → ArrBody SB 1 (w ++ [93])
  | elems (w v t : Bytes) (k m : Nat) : AllSpace w → Val SB k v → ArrTail SB m t →
      ArrBody SB (max (k + 1) m) (w ++ (v ++ t))
/-- what may follow an array element -/
inductive ArrTail (SB : Bytes → Prop) : Nat → Bytes → Prop
  | close (w : Bytes) : AllSpace w → ArrTail SB 1 (w ++ [93])
  | more (w w' v t : Bytes) (k m : Nat) : AllSpace w → AllSpace w' → Val SB k v → ArrTail SB m t →
      ArrTail SB (max 2 (max (k + 1) m)) (w ++ 44 :: (w' ++ (v ++ t)))
/-- what may follow `{` -/
inductive ObjBody (SB : Bytes → Prop) : Nat → Bytes → Prop
  | empty (w : Bytes) : AllSpace w → ObjBody SB 1 (w ++ [125])
  | members (w key w1 w2 v t : Bytes) (k m : Nat) : AllSpace w → SB key → AllSpace w1 → AllSpace w2 →
      Val SB k v → ObjTail SB m t →
      ObjBody SB (max 2 (max (k + 1) m)) (w ++ 34 :: (key ++ 34 :: (w1 ++ 58 :: (w2 ++ (v ++ t)))))
/-- what may follow an object member -/
inductive ObjTail (SB : Bytes → Prop) : Nat → Bytes → Prop
  | close (w : Bytes) : AllSpace w → ObjTail SB 1 (w ++ [125])
  | more (w w0 key w1 w2 v t : Bytes) (k m : Nat) : AllSpace w → AllSpace w0 → SB key → AllSpace w1 → AllSpace w2 →
      Val SB k v → ObjTail SB m t →
      ObjTail SB (max 2 (max (k + 1) m))
        (w ++ 44 :: (w0 ++ 34 :: (key ++ 34 :: (w1 ++ 58 :: (w2 ++ (v ++ t))))))
end

/-- a document: optional space, one value, optional space -/
inductive Doc (SB : Bytes → Prop) : Nat → Bytes → Prop
  | mk (w v w' : Bytes) (k : Nat) : AllSpace w → Val SB k v → AllSpace w' → Doc SB k (w ++ (v ++ w'))

namespace Strict
abbrev value (k : Nat) (v : Bytes) : Prop := Val StrictBody k v
abbrev docN (k : Nat) (s : Bytes) : Prop := Doc StrictBody k s
/-- `s` is a JSON text in the sense of RFC 8259 / `encoding/json.Valid` -/
def doc (s : Bytes) : Prop := ∃ k, Doc StrictBody k s
end Strict

namespace Structural
abbrev value (k : Nat) (v : Bytes) : Prop := Val LaxBody k v
abbrev docN (k : Nat) (s : Bytes) : Prop := Doc LaxBody k s
/-- `s` is structurally well-formed: balanced, terminated containers and strings, good literals and
    numbers, separators where they belong, nothing but space around the single value -/
def doc (s : Bytes) : Prop := ∃ k, Doc LaxBody k s
end Structural

end SonicSpec.Json
