/-
  Core D, deep part (work package `dir`, properties C01 / C11): the JIT decoder's intermediate
  representation - the instruction set of /repo/internal/decoder/jitdec/compiler.go (`_OP_any` ..
  `_OP_debug`, numbered as there, compiler.go:36-105), the amd64 memory layout of the modelled Go types
  (operands of `_OP_index` / `_OP_array_clear` are byte offsets / sizes), the method-set facts the
  compiler asks reflect for (`Implements(json.Unmarshaler / encoding.TextUnmarshaler)`), and the
  disassembler `_Instr.disassemble` / `_Program.disassemble` (compiler.go:365-570).  Core Lean only.

  Abstraction of the operands.  A real instruction is `{u: op:8 | vb:8 | vi:48, p: pointer}`; the model's
  instructions hold
    * `index sel off`     - `off` is the byte offset the real instruction carries (printed), `sel` the path
                            of child selectors the abstract machine (Model/DirExec.lean) follows;
    * `save enter`        - `_OP_save`; `enter` marks the one `_OP_save` of compileArray after which the SAME
                            address is read as the address of element 0 (costs nothing in memory, not printed);
    * `arrayClear size n t` - the size operand (printed) plus length and element type (what the machine zeroes);
    * `structField fs`    - the `*caching.FieldMap` operand as the resolved field list (position = field ID);
    * type operands       - the `GoType` itself; jump targets are absolute instruction indexes.
-/
import SonicSpec.Model.Bind
import SonicSpec.Generated.Consts
import SonicSpec.Generated.Layout
namespace SonicSpec.Dir
open SonicSpec SonicSpec.Go SonicSpec.Bind

def ascii (s : String) : Bytes := s.toUTF8.toList

/-- the thirteen `_OP_map_key_*` opcodes (compiler.go:63-75) -/
inductive KeyOp where
  | i8 | i16 | i32 | i64 | u8 | u16 | u32 | u64 | f32 | f64 | str | utext | utextP
deriving Repr, DecidableEq, Inhabited

/-- compiler.go:260 `_Instr` by opcode -/
inductive Instr where
  | any
  | dyn (t : GoType) (flags : Nat)
  | str | bin | bool | num
  | i8 | i16 | i32 | i64 | u8 | u16 | u32 | u64 | f32 | f64
  | unquote
  | nil1 | nil2 | nil3
  | emptyBytes
  | deref (t : GoType)
  | index (sel : List Nat) (off : Nat)
  | isNull (tgt : Nat)
  | isNullQuote (tgt : Nat)
  | mapInit
  | mapKey (k : KeyOp) (t : GoType) (tgt : Nat)
  | arraySkip
  | arrayClear (size n : Nat) (t : GoType)
  | arrayClearP (size n : Nat) (t : GoType)
  | sliceInit (t : GoType)
  | sliceAppend (t : GoType)
  | objectNext
  | structField (fs : List Field)
  | unmarshal (t : GoType) (flags : Nat)
  | unmarshalP (t : GoType) (flags : Nat)
  | unmarshalText (t : GoType) (flags : Nat)
  | unmarshalTextP (t : GoType) (flags : Nat)
  | lspace
  | matchChar (c : UInt8)
  | checkChar (tgt : Nat) (c : UInt8)
  | load
  | save (enter : Bool)
  | drop | drop2
  | recurse (t : GoType)
  | goto (tgt : Nat)
  | switch (tgts : List Nat)
  | checkChar0 (tgt : Nat) (c : UInt8)
  | dismatchErr (t : GoType)
  | goSkip (tgt : Nat)
  | skipEmpty (tgt : Nat)
  | add (n : Nat)
  | checkEmpty (tgt : Nat) (c : UInt8)
  | unsupported (t : GoType)
  | debug
deriving Repr, Inhabited

abbrev Program := List Instr

def KeyOp.code : KeyOp → Nat
  | .i8 => 27 | .i16 => 28 | .i32 => 29 | .i64 => 30 | .u8 => 31 | .u16 => 32 | .u32 => 33 | .u64 => 34
  | .f32 => 35 | .f64 => 36 | .str => 37 | .utext => 38 | .utextP => 39

def KeyOp.name : KeyOp → String
  | .i8 => "map_key_i8" | .i16 => "map_key_i16" | .i32 => "map_key_i32" | .i64 => "map_key_i64"
  | .u8 => "map_key_u8" | .u16 => "map_key_u16" | .u32 => "map_key_u32" | .u64 => "map_key_u64"
  | .f32 => "map_key_f32" | .f64 => "map_key_f64" | .str => "map_key_str"
  | .utext => "map_key_utext" | .utextP => "map_key_utext_p"

/-- numeric opcode (compiler.go:36-105, `iota + 1`) -/
def Instr.code : Instr → Nat
  | .any => 1 | .dyn _ _ => 2 | .str => 3 | .bin => 4 | .bool => 5 | .num => 6
  | .i8 => 7 | .i16 => 8 | .i32 => 9 | .i64 => 10 | .u8 => 11 | .u16 => 12 | .u32 => 13 | .u64 => 14
  | .f32 => 15 | .f64 => 16 | .unquote => 17 | .nil1 => 18 | .nil2 => 19 | .nil3 => 20 | .emptyBytes => 21
  | .deref _ => 22 | .index _ _ => 23 | .isNull _ => 24 | .isNullQuote _ => 25 | .mapInit => 26
  | .mapKey k _ _ => k.code
  | .arraySkip => 40 | .arrayClear _ _ _ => 41 | .arrayClearP _ _ _ => 42 | .sliceInit _ => 43 | .sliceAppend _ => 44
  | .objectNext => 45 | .structField _ => 46 | .unmarshal _ _ => 47 | .unmarshalP _ _ => 48
  | .unmarshalText _ _ => 49 | .unmarshalTextP _ _ => 50 | .lspace => 51 | .matchChar _ => 52 | .checkChar _ _ => 53
  | .load => 54 | .save _ => 55 | .drop => 56 | .drop2 => 57 | .recurse _ => 58 | .goto _ => 59 | .switch _ => 60
  | .checkChar0 _ _ => 61 | .dismatchErr _ => 62 | .goSkip _ => 63 | .skipEmpty _ => 64 | .add _ => 65
  | .checkEmpty _ _ => 66 | .unsupported _ => 67 | .debug => 68

/-- `_OpNames` (compiler.go:118-184); `_OP_array_clear`, `_OP_array_clear_p` and `_OP_skip_emtpy` have no entry
    there and print as `<invalid>` -/
def Instr.name : Instr → String
  | .any => "any" | .dyn _ _ => "dyn" | .str => "str" | .bin => "bin" | .bool => "bool" | .num => "num"
  | .i8 => "i8" | .i16 => "i16" | .i32 => "i32" | .i64 => "i64" | .u8 => "u8" | .u16 => "u16" | .u32 => "u32" | .u64 => "u64"
  | .f32 => "f32" | .f64 => "f64" | .unquote => "unquote" | .nil1 => "nil_1" | .nil2 => "nil_2" | .nil3 => "nil_3"
  | .emptyBytes => "empty bytes" | .deref _ => "deref" | .index _ _ => "index" | .isNull _ => "is_null"
  | .isNullQuote _ => "is_null_quote" | .mapInit => "map_init" | .mapKey k _ _ => k.name
  | .arraySkip => "array_skip" | .arrayClear _ _ _ => "<invalid>" | .arrayClearP _ _ _ => "<invalid>"
  | .sliceInit _ => "slice_init" | .sliceAppend _ => "slice_append" | .objectNext => "object_next"
  | .structField _ => "struct_field" | .unmarshal _ _ => "unmarshal" | .unmarshalP _ _ => "unmarshal_p"
  | .unmarshalText _ _ => "unmarshal_text" | .unmarshalTextP _ _ => "unmarshal_text_p" | .lspace => "lspace"
  | .matchChar _ => "match_char" | .checkChar _ _ => "check_char" | .load => "load" | .save _ => "save"
  | .drop => "drop" | .drop2 => "drop_2" | .recurse _ => "recurse" | .goto _ => "goto" | .switch _ => "switch"
  | .checkChar0 _ _ => "check_char_0" | .dismatchErr _ => "dismatch_err" | .goSkip _ => "go_skip"
  | .skipEmpty _ => "<invalid>" | .add _ => "add" | .checkEmpty _ _ => "check_empty"
  | .unsupported _ => "unsupported type" | .debug => "debug"

/-- compiler.go:348 `isBranch`: the instructions whose targets get a label in the listing (`_OP_check_char_0`,
    `_OP_go_skip`, `_OP_check_empty`, `_OP_skip_emtpy` and the map-key opcodes jump as well, without a label) -/
def Instr.isBranch : Instr → Bool
  | .goto _ | .switch _ | .isNull _ | .isNullQuote _ | .checkChar _ _ => true
  | _ => false

/-- the label targets of a branch -/
def Instr.labels : Instr → List Nat
  | .goto t | .isNull t | .isNullQuote t | .checkChar t _ => [t]
  | .switch ts => ts
  | _ => []

/-! ### named library types (go/harness/types.go, ops_dir_hook.go): kind, method sets, layout -/

inductive Recv where
  | none | ptr | val
deriving Repr, DecidableEq, Inhabited

/-- one entry of `resolver.ResolveStruct`: JSON name, the offset path after `FieldMeta.optimize`
    (size, dereferenced type for `F_deref`), type, `,string` -/
structure LField where
  name : String
  path : List (Nat × Option GoType)
  ty : GoType
  quoted : Bool := false
deriving Repr, Inhabited

inductive LKind where
  | st (nfields : Nat) (fields : List LField)
  | str
  | iface
  | nptr (elem : String)      -- `type T *Elem`, Elem a named struct of the library: a pointer KIND with an empty method set
deriving Repr, Inhabited

structure LibInfo where
  kind : LKind
  uj : Recv := .none          -- receiver of UnmarshalJSON
  ut : Recv := .none          -- receiver of UnmarshalText
  size : Nat
  hasPtr : Bool
deriving Repr, Inhabited

def vInt : LField := { name := "V", path := [(0, none)], ty := .int 64 }

/-- the library of go/harness/types.go (MV .. EmbOuter) and of go/harness/ops_dir_hook.go (Dir*) -/
def libInfo : String → Option LibInfo
  | "MV" => some { kind := .st 1 [vInt], uj := .ptr, size := 8, hasPtr := false }
  | "MP" => some { kind := .st 1 [vInt], size := 8, hasPtr := false }
  | "TV" => some { kind := .st 1 [vInt], ut := .ptr, size := 8, hasPtr := false }
  | "TP" => some { kind := .st 1 [vInt], size := 8, hasPtr := false }
  | "Rec" => some { kind := .st 2 [{ name := "v", path := [(0, none)], ty := .int 64 },
                                   { name := "next", path := [(8, none)], ty := .ptr (.lib "Rec") }], size := 16, hasPtr := true }
  | "Tree" => some { kind := .st 3 [{ name := "n", path := [(0, none)], ty := .str },
                                    { name := "kids", path := [(16, none)], ty := .sl (.lib "Tree") },
                                    { name := "m", path := [(40, none)], ty := .map .str (.ptr (.lib "Tree")) }], size := 48, hasPtr := true }
  | "EmbInner" => some { kind := .st 2 [{ name := "A", path := [(0, none)], ty := .int 64 }, { name := "b", path := [(8, none)], ty := .str }],
                         size := 24, hasPtr := true }
  | "EmbPtr" => some { kind := .st 2 [{ name := "C", path := [(0, none)], ty := .int 64 }, { name := "A", path := [(8, none)], ty := .int 64 }],
                       size := 16, hasPtr := false }
  -- EmbOuter{EmbInner; *EmbPtr; B int `bb`; D int}: A is dropped (two at one depth), C sits behind the embedded pointer
  | "EmbOuter" => some { kind := .st 4 [{ name := "b", path := [(8, none)], ty := .str },
                                        { name := "C", path := [(24, some (.lib "EmbPtr"))], ty := .int 64 },
                                        { name := "bb", path := [(32, none)], ty := .int 64 },
                                        { name := "D", path := [(40, none)], ty := .int 64 }], size := 48, hasPtr := true }
  | "DirSJ" => some { kind := .str, uj := .ptr, size := 16, hasPtr := true }       -- named string, (*T).UnmarshalJSON
  | "DirST" => some { kind := .str, ut := .ptr, size := 16, hasPtr := true }       -- named string, (*T).UnmarshalText
  | "DirVJ" => some { kind := .st 1 [vInt], uj := .val, size := 8, hasPtr := false } -- T.UnmarshalJSON (value receiver)
  | "DirVT" => some { kind := .st 1 [vInt], ut := .val, size := 8, hasPtr := false } -- T.UnmarshalText (value receiver)
  | "DirIU" => some { kind := .iface, uj := .val, size := 16, hasPtr := true }     -- interface{ json.Unmarshaler }
  | "DirIT" => some { kind := .iface, ut := .val, size := 16, hasPtr := true }     -- interface{ encoding.TextUnmarshaler }
  | "DirIM" => some { kind := .iface, size := 16, hasPtr := true }                 -- interface{ M() }
  | "DirRef" => some { kind := .nptr "MV", size := 8, hasPtr := true }             -- type DirRef *MV (finding C09-jitdec-namedptr-inline-depth)
  | "DirRefT" => some { kind := .nptr "TV", size := 8, hasPtr := true }            -- type DirRefT *TV (element with (*TV).UnmarshalText)
  | _ => none

/-- the element of a named pointer type -/
def nptrElem (n : String) : Option String :=
  match libInfo n with
  | some { kind := .nptr e, .. } => some e
  | _ => none

def isIfaceLib (n : String) : Bool :=
  match libInfo n with
  | some { kind := .iface, .. } => true
  | _ => false

/-- `vt.Implements(json.Unmarshaler)`: the method set of a named non-interface type holds its value-receiver methods,
    that of a pointer to it all of them, that of an interface its own; json.RawMessage has `(*RawMessage).UnmarshalJSON` -/
def implJ : GoType → Bool
  | .lib n => (match libInfo n with
    | some i => (match i.kind with
      | .iface => i.uj != .none
      | _ => i.uj == .val)
    | none => false)
  | .ptr (.lib n) => (match libInfo n with
    | some i => (match i.kind with
      | .iface => false
      | _ => i.uj != .none)
    | none => false)
  | .ptr .raw => true
  | _ => false

/-- `vt.Implements(encoding.TextUnmarshaler)` -/
def implT : GoType → Bool
  | .lib n => (match libInfo n with
    | some i => (match i.kind with
      | .iface => i.ut != .none
      | _ => i.ut == .val)
    | none => false)
  | .ptr (.lib n) => (match libInfo n with
    | some i => (match i.kind with
      | .iface => false
      | _ => i.ut != .none)
    | none => false)
  | _ => false

def isPtrT : GoType → Bool
  | .ptr _ => true
  | _ => false

/-- `vt.Kind() == reflect.Interface` -/
def isIfaceT : GoType → Bool
  | .any => true
  | .lib n => isIfaceLib n
  | _ => false

/-! ### memory layout (amd64: `reflect.Type.Size/Align/Field(i).Offset`, `rt.GoType.PtrData != 0`) -/

def alignUp (n a : Nat) : Nat := if a == 0 then n else (n + a - 1) / a * a

mutual
/-- `(size, align)` of a type -/
def tlayout : GoType → Nat × Nat
  | .bool => (1, 1)
  | .int b => (b / 8, b / 8)
  | .uint b => (b / 8, b / 8)
  | .f32 => (4, 4)
  | .f64 => (8, 8)
  | .str | .num => (16, 8)
  | .bytes | .raw => (24, 8)
  | .any => (16, 8)
  | .sl _ => (24, 8)
  | .arr n t => let (s, a) := tlayout t; (n * s, a)
  | .ptr _ => (8, 8)
  | .map _ _ => (8, 8)
  | .st fs =>
    let (e, a, lastZero) := flayout fs 0 1
    -- a trailing zero-size field is followed by one byte of padding (reflect.StructOf `lastzero`)
    let e' := if lastZero && e > 0 then e + 1 else e
    (alignUp e' a, a)
  | .lib n => ((libInfo n).map (·.size) |>.getD 8, 8)
/-- end offset, alignment, "the last field has size zero" after laying the fields out from `off` -/
def flayout : List (String × Option Bytes × GoType) → Nat → Nat → Nat × Nat × Bool
  | [], off, a => (off, a, false)
  | (_, _, t) :: r, off, a =>
    let (s, al) := tlayout t
    let o := alignUp off al
    match r with
    | [] => (o + s, max a al, s == 0)
    | _ :: _ => flayout r (o + s) (max a al)
end

def tsize (t : GoType) : Nat := (tlayout t).1
def talign (t : GoType) : Nat := (tlayout t).2

/-- byte offsets of the declared fields -/
def offsets : List (String × Option Bytes × GoType) → Nat → List Nat
  | [], _ => []
  | (_, _, t) :: r, off =>
    let o := alignUp off (talign t)
    o :: offsets r (o + tsize t)

mutual
/-- `rt.UnpackType(t).PtrData != 0` -/
def hasPtr : GoType → Bool
  | .bool | .int _ | .uint _ | .f32 | .f64 => false
  | .arr n t => n != 0 && hasPtr t
  | .st fs => hasPtrF fs
  | .lib n => (libInfo n).map (·.hasPtr) |>.getD true
  | _ => true
def hasPtrF : List (String × Option Bytes × GoType) → Bool
  | [] => false
  | (_, _, t) :: r => hasPtr t || hasPtrF r
end

/-! ### the disassembler, in the canonical spelling of go/harness/ops_dir_hook.go: the real text
    (`fmt.Sprintf("%-18s...")`, compiler.go:365-434) with type operands in the type-expression grammar, followed -
    after ` ; ` - by the operands the real text does not show -/

def pad18 (s : String) : String := s ++ String.ofList (List.replicate (18 - s.length) ' ')

/-- `[]uint8` is printed `bytes` (one Go type, two spellings in the grammar) -/
partial def typeSx : GoType → String
  | .sl (.uint 8) => "bytes"
  | .sl t => s!"(sl {typeSx t})"
  | .arr n t => s!"(arr {n} {typeSx t})"
  | .ptr t => s!"(ptr {typeSx t})"
  | .map k t => s!"(map {typeSx k} {typeSx t})"
  | .st fs => "(st" ++ String.join (fs.map fun (n, tg, t) =>
      s!" (f {n} {match tg with | none => "-" | some b => hex b} {typeSx t})") ++ ")"
  | t => typeToString t

/-- strconv.QuoteRune of the structural characters the compiler uses -/
def quoteRune (c : UInt8) : String := "'" ++ String.singleton (Char.ofNat c.toNat) ++ "'"

def bytesLt : Bytes → Bytes → Bool
  | [], [] => false
  | [], _ :: _ => true
  | _ :: _, [] => false
  | a :: r, b :: s => a < b || (a == b && bytesLt r s)

def insertField (e : Bytes × Nat) : List (Bytes × Nat) → List (Bytes × Nat)
  | [] => [e]
  | f :: r => if bytesLt e.1 f.1 then e :: f :: r else f :: insertField e r

/-- compiler.go:450 formatStructFields: `name=id` sorted by name -/
def sortFields : List (Bytes × Nat) → List (Bytes × Nat)
  | [] => []
  | e :: r => insertField e (sortFields r)

def joinBytes (sep : Bytes) : List Bytes → Bytes
  | [] => []
  | [x] => x
  | x :: r => x ++ sep ++ joinBytes sep r

/-- the part of the line `_Instr.disassemble` prints -/
def Instr.shown (i : Instr) : Bytes :=
  match i with
  | .dyn t _ | .deref t | .mapKey _ t _ | .sliceInit t | .sliceAppend t | .unmarshal t _ | .unmarshalP t _
  | .unmarshalText t _ | .unmarshalTextP t _ | .recurse t => ascii (pad18 i.name ++ typeSx t)
  | .goto t | .isNull t | .isNullQuote t => ascii (pad18 i.name ++ "L_" ++ toString t)
  | .index _ off => ascii (pad18 i.name ++ toString off)
  | .arrayClear size _ _ | .arrayClearP size _ _ => ascii (pad18 i.name ++ toString size)
  | .switch ts => ascii (pad18 i.name ++ ", ".intercalate (ts.zipIdx.map fun (v, k) => s!"{k}=L_{v}"))
  | .structField fs =>
    ascii (pad18 i.name) ++ joinBytes (ascii ", ") ((sortFields (fs.zipIdx.map fun (f, k) => (f.name, k))).map fun (n, k) => n ++ ascii s!"={k}")
  | .matchChar c => ascii (pad18 i.name ++ quoteRune c)
  | .checkChar t c => ascii (pad18 i.name ++ "L_" ++ toString t ++ ", " ++ quoteRune c)
  | _ => ascii i.name

/-- the operands the real text hides -/
def Instr.hidden (i : Instr) : String :=
  match i with
  | .dyn _ f | .unmarshal _ f | .unmarshalP _ f | .unmarshalText _ f | .unmarshalTextP _ f => s!" ; {f}"
  | .mapKey _ _ t | .goSkip t => s!" ; L_{t}"
  | .arrayClear _ _ _ => " ; array_clear"
  | .arrayClearP _ _ _ => " ; array_clear_p"
  | .checkChar0 t c | .checkEmpty t c => s!" ; L_{t}, {quoteRune c}"
  | .dismatchErr t | .unsupported t => " ; " ++ typeSx t
  | .skipEmpty t => s!" ; skip_empty L_{t}"
  | .add n => s!" ; {n}"
  | _ => ""

def Instr.disasm (i : Instr) (full : Bool) : Bytes :=
  if full then i.shown ++ ascii i.hidden else i.shown

/-- compiler.go:536 `_Program.disassemble`; `full` adds the hidden operands -/
def disasm (p : Program) (full : Bool := true) : Bytes :=
  let n := p.length
  let tab : Array Bool := p.foldl (fun t i => if i.isBranch then i.labels.foldl (fun t v => if v ≤ n then t.set! v true else t) t else t)
    (Array.replicate (n + 1) false)
  let lines := p.zipIdx.map fun (ins, i) =>
    if tab[i]! then ascii s!"L_{i}:\n\t" ++ ins.disasm full else 9 :: ins.disasm full
  let last := if tab[n]! then [ascii s!"L_{n}:"] else []
  joinBytes [10] (lines ++ last ++ [ascii "\tend"])

/-! ### compile options and limits -/

/-- option.CompileOptions (option/option.go:34) as far as the decoder's compiler reads them -/
structure COpts where
  maxInlineDepth : Nat := Gen.defaultMaxInlineDepth.toNat
deriving Repr, Inhabited

/-- jitdec `_MaxStack` (pools.go:30), regenerated -/
def maxStack : Nat := Gen.decJitMaxStack.toNat
/-- compiler.go:114 `_MAX_ILBUF`, :115 `_MAX_FIELDS` (checked against the source by vlib/props/C01.py `extra`) -/
def maxIlbuf : Nat := 100000
def maxFields : Nat := 50

end SonicSpec.Dir
