/-
  Enc core: `Enc.encode`, the SPECIFICATION of Marshal, written after encoding/json
  (GOROOT/src/encoding/json/encode.go, Go 1.23; `omitzero` after Go 1.24) and parameterised by
  the nine encoder switches of sonic (internal/encoder/alg/opts.go).  Core Lean only.

  The result is first a `Json.JVal` tree (string bodies raw, number literals as text) and then
  its compact rendering; user-callback output (json.Marshaler / RawMessage) enters the tree
  through the strict parser, so "accepted by validation" and "embedded" are the same event.

  Addressability (`addr`) is tracked as encoding/json does with `reflect.Value.CanAddr`:
  pointer-receiver methods are only found on addressable values (encode.go: condAddrEncoder).
-/
import SonicSpec.Model.EncStr
import SonicSpec.Model.NumFmt
import SonicSpec.Model.JsonTree
import SonicSpec.Model.GoTypes
namespace SonicSpec.Enc
open SonicSpec.Go SonicSpec.Json

/-- the encoder switches (internal/encoder/alg/opts.go:19-29), in bit order -/
structure EncOpts where
  sortMapKeys : Bool := false
  escapeHTML : Bool := false
  compactMarshaler : Bool := false
  noQuoteTextMarshaler : Bool := false
  noNullSliceOrMap : Bool := false
  validateString : Bool := false
  noValidateJSONMarshaler : Bool := false
  noEncoderNewline : Bool := false
  encodeNullForInfOrNan : Bool := false
deriving Repr, DecidableEq, Inhabited

/-- `sonic.ConfigStd` (api.go:107) restricted to the encoder -/
def EncOpts.std : EncOpts :=
  { sortMapKeys := true, escapeHTML := true, compactMarshaler := true, validateString := true }

def EncOpts.ofBits (n : Nat) : EncOpts :=
  { sortMapKeys := n.testBit 0, escapeHTML := n.testBit 1, compactMarshaler := n.testBit 2,
    noQuoteTextMarshaler := n.testBit 3, noNullSliceOrMap := n.testBit 4, validateString := n.testBit 5,
    noValidateJSONMarshaler := n.testBit 6, noEncoderNewline := n.testBit 7, encodeNullForInfOrNan := n.testBit 8 }

inductive EErr where
  | unsupportedType      -- json.UnsupportedTypeError
  | unsupportedValue     -- json.UnsupportedValueError (NaN/Inf, invalid json.Number)
  | marshaler            -- callback output rejected
  | unchecked            -- validation switched off and the callback text is not JSON: no claim is made
  | illTyped             -- the value does not inhabit the type (never produced by the harness)
  | outside              -- outside the modelled universe (tag names beyond Latin-1 letters, unknown library type)
deriving Repr, DecidableEq, Inhabited

/-- bytes of an ASCII string (Go identifiers and the literals below are ASCII; reduces in the kernel,
    which `String.toUTF8` does not) -/
def ascii (s : String) : Bytes := s.toList.map fun c => UInt8.ofNat c.toNat

instance instDecEqExcept {ε α : Type} [DecidableEq ε] [DecidableEq α] : DecidableEq (Except ε α)
  | .ok a, .ok b => if h : a = b then isTrue (by rw [h]) else isFalse (fun e => h (by injection e))
  | .error a, .error b => if h : a = b then isTrue (by rw [h]) else isFalse (fun e => h (by injection e))
  | .ok _, .error _ => isFalse (fun e => by cases e)
  | .error _, .ok _ => isFalse (fun e => by cases e)

/-! ### struct tags and the field list (encode.go typeFields, for flat structs) -/

def splitComma (s : Bytes) : List Bytes :=
  let rec go : Bytes → Bytes → List Bytes
    | [], cur => [cur.reverse]
    | c :: r, cur => if c == 44 then cur.reverse :: go r [] else go r (c :: cur)
  go s []

def isAsciiLetterDigit (c : UInt8) : Bool :=
  (c ≥ 48 && c ≤ 57) || (c ≥ 65 && c ≤ 90) || (c ≥ 97 && c ≤ 122)

/-- punctuation accepted by `isValidTag`: !#$%&()*+-./:;<=>?@[]^_{|}~ and space -/
def isTagPunct (c : UInt8) : Bool :=
  c == 33 || c == 35 || c == 36 || c == 37 || c == 38 || c == 40 || c == 41 || c == 42 || c == 43 ||
  c == 45 || c == 46 || c == 47 || c == 58 || c == 59 || c == 60 || c == 61 || c == 62 || c == 63 ||
  c == 64 || c == 91 || c == 93 || c == 94 || c == 95 || c == 123 || c == 124 || c == 125 || c == 126 || c == 32

/-- `some true/false`: verdict of `isValidTag` on one piece; `none`: a character whose Unicode
    class the model does not carry (only ASCII and the Latin-1 letters U+00C0..U+00FF are) -/
def tagPieceOK : Piece → Option Bool
  | .ascii c => some (isAsciiLetterDigit c || isTagPunct c)
  | .multi [195, x] => some (x != 151 && x != 183)      -- U+00D7 and U+00F7 are not letters
  | .multi _ => none
  | .bad _ => some false

def allOK : List Piece → Option Bool
  | [] => some true
  | p :: r => match tagPieceOK p, allOK r with
    | some a, some b => some (a && b)
    | _, _ => none

/-- encode.go isValidTag -/
def isValidTag (name : Bytes) : Option Bool :=
  if name.isEmpty then some false else allOK (pieces name)

structure Field where
  name : Bytes
  tagged : Bool
  omitEmpty : Bool
  omitZero : Bool
  quoted : Bool
  typ : GoType
deriving Inhabited

/-- kinds that `,string` applies to (encode.go typeFields: "Only strings, floats, integers, and booleans") -/
def stringable : GoType → Bool
  | .bool | .int _ | .uint _ | .f32 | .f64 | .str | .num => true
  | _ => false

def quotedOK : GoType → Bool
  | .ptr t => stringable t
  | t => stringable t

/-- one declared field: `none` = dropped by tag "-"; inner `none` = outside the model -/
def fieldOf (goName : String) (tag : Option Bytes) (t : GoType) : Option (Option Field) :=
  match tag with
  | none => some (some ⟨ascii goName, false, false, false, false, t⟩)
  | some tg =>
    if tg == [45] then some none
    else
      let parts := splitComma tg
      let nm := parts.headD []
      let opts := parts.drop 1
      let has (w : String) : Bool := opts.contains (ascii w)
      match isValidTag nm with
      | none => none
      | some valid =>
        let name := if valid then nm else ascii goName
        some (some ⟨name, valid, has "omitempty", has "omitzero", has "string" && quotedOK t, t⟩)

def fieldsOf : List (String × Option Bytes × GoType) → Option (List (Option Field))
  | [] => some []
  | (n, tg, t) :: r => match fieldOf n tg t, fieldsOf r with
    | some f, some fs => some (f :: fs)
    | _, _ => none

/-- dominance among fields of equal depth (encode.go dominantField): a name survives when exactly one
    field carries it, or exactly one of its carriers is tagged (that one wins) -/
def dominant (all : List (Option Field)) (f : Field) : Bool :=
  let same := all.filterMap fun g => match g with | some g => if g.name == f.name then some g else none | none => none
  let tagged := same.filter (·.tagged)
  if f.tagged then tagged.length == 1 else tagged.length == 0 && same.length == 1

/-- the resolved field list, aligned with the declaration (none = not emitted) -/
def keepList (fs : List (String × Option Bytes × GoType)) : Option (List (Option Field)) :=
  (fieldsOf fs).map fun all => all.map fun g => match g with
    | some f => if dominant all f then some f else none
    | none => none

/-! ### emptiness (omitempty) and zero-ness (omitzero) -/

def floatIsZero64 (b : UInt64) : Bool := b.toNat % 2 ^ 63 == 0      -- ±0 (`v.Float() == 0`)
def floatIsZero32 (b : UInt32) : Bool := b.toNat % 2 ^ 31 == 0

/-- encode.go isEmptyValue -/
def isEmptyV : GoType → GoVal → Bool
  | _, .nil => true                         -- nil pointer / interface / slice / map / []byte / RawMessage
  | _, .bool b => !b
  | _, .int n => n == 0
  | _, .uint n => n == 0
  | _, .f64 b => floatIsZero64 b
  | _, .f32 b => floatIsZero32 b
  | _, .str s => s.isEmpty
  | _, .num s => s.isEmpty
  | _, .bytes b => b.isEmpty
  | _, .raw b => b.isEmpty
  | _, .sl xs => xs.isEmpty
  | .arr _ _, .arr xs => xs.isEmpty
  | _, .map kvs => kvs.isEmpty
  | _, _ => false

mutual
/-- reflect.Value.IsZero -/
def isZeroV : GoVal → Bool
  | .nil => true
  | .bool b => !b
  | .int n => n == 0
  | .uint n => n == 0
  | .f64 b => floatIsZero64 b
  | .f32 b => floatIsZero32 b
  | .str s => s.isEmpty
  | .num s => s.isEmpty
  | .arr xs => allZero xs
  | .st vs => allZero vs
  | .lib m => m.isEmpty                      -- programmable callback leaf: struct { B []byte / string }
  | _ => false                               -- non-nil slice, map, pointer, interface
def allZero : List GoVal → Bool
  | [] => true
  | v :: r => isZeroV v && allZero r
end

/-! ### leaves -/

/-- float literals: the project's one shortest-round-trip formatter with encoding/json's notation rule
    (core C, Model/NumFmt.lean; `none` = NaN or an infinity) -/
abbrev fmtF64 (b : UInt64) : Option Bytes := Num.fmtF64 b
abbrev fmtF32 (b : UInt32) : Option Bytes := Num.fmtF32 b

def nullLit : Bytes := [110, 117, 108, 108]

def nilSlice (o : EncOpts) : JVal := if o.noNullSliceOrMap then .arr [] else .null
def nilMap (o : EncOpts) : JVal := if o.noNullSliceOrMap then .obj [] else .null

/-- float literal, or the NaN/Inf rule (vm.go OP_f64: error unless EncodeNullForInfOrNan) -/
def floatLit (o : EncOpts) (lit : Option Bytes) : Except EErr Bytes :=
  match lit with
  | some l => .ok l
  | none => if o.encodeNullForInfOrNan then .ok nullLit else .error .unsupportedValue

def validNumber (s : Bytes) : Bool :=
  match scanNumber s with
  | some (_, []) => true
  | _ => false

/-- json.Number text (encode.go stringEncoder, vm.go OP_number): "" is 0, anything else must be a number -/
def numberLit (s : Bytes) : Except EErr Bytes :=
  if s.isEmpty then .ok [48] else if validNumber s then .ok s else .error .unsupportedValue

/-- text returned by a json.Marshaler (or the bytes of a RawMessage) enters the output only through
    the strict parser; when CompactMarshaler is off and NoValidateJSONMarshaler is on the text is not
    looked at by the implementation and the specification makes no claim about ill-formed text -/
def marshalerOut (o : EncOpts) (m : Bytes) : Except EErr JVal :=
  match parseDoc m with
  | some j => .ok j
  | none => .error (if o.compactMarshaler || !o.noValidateJSONMarshaler then .marshaler else .unchecked)

def strVal (o : EncOpts) (s : Bytes) : JVal := .str (quoteBody o.escapeHTML o.validateString s)

/-- text returned by an encoding.TextMarshaler -/
def textOut (o : EncOpts) (t : Bytes) : Except EErr JVal :=
  if o.noQuoteTextMarshaler then
    match parseDoc t with
    | some j => .ok j
    | none => .error .unchecked
  else .ok (strVal o t)

/-- member name literal body of a struct field (compiler.go compileStructBody: `Quote(fv.Name)`, then the post-passes) -/
def nameKey (o : EncOpts) (name : Bytes) : Bytes := quoteBody o.escapeHTML o.validateString name

/-! ### library types of the harness (go/harness/types.go) -/

def libRec : List (String × Option Bytes × GoType) :=
  [("V", some (ascii "v"), .int 64), ("Next", some (ascii "next,omitempty"), .ptr (.lib "Rec"))]
def libTree : List (String × Option Bytes × GoType) :=
  [("N", some (ascii "n"), .str), ("Kids", some (ascii "kids"), .sl (.lib "Tree")),
   ("M", some (ascii "m,omitempty"), .map .str (.ptr (.lib "Tree")))]

def libStruct : String → Option (List (String × Option Bytes × GoType))
  | "Rec" => some libRec
  | "Tree" => some libTree
  | _ => none

/-- map key text (encode.go resolveKeyName); `none`: key type not supported by encoding/json -/
def keyText : GoType → GoVal → Option Bytes
  | .str, .str s => some s
  | .int _, .int n => some (intDec n)
  | .uint _, .uint n => some (natDec n)
  | .lib "TV", .st [.int n] => some (ascii "tv" ++ intDec n)
  | .lib "LT", .lib t => some t
  | _, _ => none

def keyTypeOK : GoType → Bool
  | .str | .int _ | .uint _ => true
  | .lib "TV" | .lib "LT" => true
  | _ => false

def isTextKey : GoType → Bool
  | .lib "TV" | .lib "LT" => true
  | _ => false

/-- the member name of a map entry from its key text.  With NoQuoteTextMarshaler the text of a TextMarshaler
    key is taken as an already quoted literal when keys are not sorted (compiler.go compileMapBodyUtextKey ->
    prim.EncodeTextMarshaler); when they are sorted the rendered text is quoted like any string
    (vm.go OP_map_write_key) -/
def keyBody (o : EncOpts) (k : GoType) (ks : Bytes) : Except EErr Bytes :=
  if o.noQuoteTextMarshaler && !o.sortMapKeys && isTextKey k then
    match parseDoc ks with
    | some (.str b) => .ok b
    | _ => .error .unchecked
  else .ok (quoteBody o.escapeHTML o.validateString ks)

def keyBodies (o : EncOpts) (k : GoType) : List (Bytes × JVal) → Except EErr (List (Bytes × JVal))
  | [] => .ok []
  | (ks, j) :: r => do
    let b ← keyBody o k ks
    let rs ← keyBodies o k r
    pure ((b, j) :: rs)

/-- insertion of an entry by rendered key (bytewise) -/
def insertKV (e : Bytes × JVal) : List (Bytes × JVal) → List (Bytes × JVal)
  | [] => [e]
  | f :: r => if bytesLe e.1 f.1 then e :: f :: r else f :: insertKV e r

def sortKV : List (Bytes × JVal) → List (Bytes × JVal)
  | [] => []
  | e :: r => insertKV e (sortKV r)

/-- `,string` on a scalar (encode.go: quoted) -/
def quotedLeaf (o : EncOpts) : GoType → GoVal → Except EErr JVal
  | .bool, .bool b => .ok (.str (if b then ascii "true" else ascii "false"))
  | .int _, .int n => .ok (.str (intDec n))
  | .uint _, .uint n => .ok (.str (natDec n))
  | .f64, .f64 b => (floatLit o (fmtF64 b)).map .str
  | .f32, .f32 b => (floatLit o (fmtF32 b)).map .str
  | .num, .num s => (numberLit s).map .str
  | .str, .str s => .ok (.str (quoteBody false o.validateString (quoteLit o.escapeHTML o.validateString s)))
  | _, _ => .error .illTyped

/-- the member promoted through the embedded `*EmbPtr` of the library type EmbOuter: absent when the pointer is nil -/
def embOuterC (o : EncOpts) : GoVal → Except EErr (List (Bytes × JVal))
  | .nil => .ok []
  | .ptr (.st [.int c, .int _]) => .ok [(nameKey o (ascii "C"), .num (intDec c))]
  | _ => .error .illTyped

/-- a `,string` member: a nil pointer is `null`, a pointer is followed once (encode.go typeFields / ptrEncoder) -/
def quotedVal (o : EncOpts) : GoType → GoVal → Except EErr JVal
  | .ptr _, .nil => .ok .null
  | .ptr t, .ptr w => quotedLeaf o t w
  | t, w => quotedLeaf o t w

def isU8 : GoType → Bool
  | .uint 8 => true
  | _ => false

def u8s : List GoVal → Option Bytes
  | [] => some []
  | .uint n :: r => (u8s r).map (UInt8.ofNat n :: ·)
  | _ => none

mutual
/-- value of type `T` to its JSON tree; `addr` = the value is addressable -/
def encV (o : EncOpts) (addr : Bool) : GoType → GoVal → Except EErr JVal
  | .bool, .bool b => .ok (.bool b)
  | .int _, .int n => .ok (.num (intDec n))
  | .uint _, .uint n => .ok (.num (natDec n))
  | .f64, .f64 b => (floatLit o (fmtF64 b)).map fun l => if l == nullLit then .null else .num l
  | .f32, .f32 b => (floatLit o (fmtF32 b)).map fun l => if l == nullLit then .null else .num l
  | .str, .str s => .ok (strVal o s)
  | .num, .num s => (numberLit s).map .num
  | .bytes, .nil => .ok (nilSlice o)
  | .bytes, .bytes b => .ok (.str (b64 b))
  | .raw, .nil => marshalerOut o nullLit
  | .raw, .raw b => marshalerOut o b
  | .any, .nil => .ok .null
  | .any, .any t v => encV o false t v
  | .ptr _, .nil => .ok .null
  | .ptr t, .ptr v => encV o true t v
  | .sl _, .nil => .ok (nilSlice o)
  | .sl t, .sl xs =>
    if isU8 t then
      match u8s xs with
      | some b => .ok (.str (b64 b))
      | none => .error .illTyped
    else (encL o true t xs).map .arr
  | .arr n t, .arr xs => if xs.length == n then (encL o addr t xs).map .arr else .error .illTyped
  | .map k _, .nil => if keyTypeOK k then .ok (nilMap o) else .error .unsupportedType
  | .map k t, .map kvs =>
    if keyTypeOK k then
      (encM o k t kvs).bind fun es =>
        (keyBodies o k (if o.sortMapKeys then sortKV es else es)).map .obj
    else .error .unsupportedType
  | .st fs, .st vs =>
    match keepList fs with
    | some ks => if ks.length == vs.length then (encF o addr ks vs).map .obj else .error .illTyped
    | none => .error .outside
  -- library types (go/harness/types.go)
  | .lib "MV", .st [.int n] => marshalerOut o (ascii "{\"mv\":" ++ intDec n ++ [125])
  | .lib "MP", .st [.int n] =>
    if addr then marshalerOut o (ascii "{\"mp\":" ++ intDec n ++ [125])
    else .ok (.obj [(nameKey o (ascii "V"), .num (intDec n))])
  | .lib "TV", .st [.int n] => textOut o (ascii "tv" ++ intDec n)
  | .lib "TP", .st [.int n] =>
    if addr then textOut o (ascii "tp" ++ intDec n)
    else .ok (.obj [(nameKey o (ascii "V"), .num (intDec n))])
  -- programmable callback leaves of go/harness/ops_enc.go: the value carries the bytes the method returns
  | .lib "LJ", .lib m => marshalerOut o m
  | .lib "LJP", .lib m =>
    if addr then marshalerOut o m
    else .ok (.obj [(nameKey o (ascii "B"), .str (b64 m))])
  | .lib "LT", .lib t => textOut o t
  | .lib "EmbOuter", .st [.st [.int _, .str b], p, .int bb, .int d] =>
    -- promoted fields: EmbInner.A and EmbPtr.A annihilate each other; `b`, `C` (through *EmbPtr), `bb`, `D`
    (embOuterC o p).map fun cs => .obj ([(nameKey o (ascii "b"), strVal o b)] ++ cs ++ [(nameKey o (ascii "bb"), .num (intDec bb)), (nameKey o (ascii "D"), .num (intDec d))])
  | .lib name, .st vs =>
    match libStruct name with
    | some fs =>
      match keepList fs with
      | some ks => if ks.length == vs.length then (encF o addr ks vs).map .obj else .error .illTyped
      | none => .error .outside
    | none => .error .outside
  | _, _ => .error .illTyped

/-- elements of a slice or array -/
def encL (o : EncOpts) (addr : Bool) (t : GoType) : List GoVal → Except EErr (List JVal)
  | [] => .ok []
  | x :: xs => do
    let j ← encV o addr t x
    let js ← encL o addr t xs
    pure (j :: js)

/-- map entries: (rendered key text, value); map elements are not addressable -/
def encM (o : EncOpts) (k t : GoType) : List (GoVal × GoVal) → Except EErr (List (Bytes × JVal))
  | [] => .ok []
  | (a, b) :: r =>
    match keyText k a with
    | none => .error .illTyped
    | some ks => do
      let j ← encV o false t b
      let js ← encM o k t r
      pure ((ks, j) :: js)

/-- struct members in declaration order; `omitempty`, `omitzero`, `,string` -/
def encF (o : EncOpts) (addr : Bool) : List (Option Field) → List GoVal → Except EErr (List (Bytes × JVal))
  | none :: fs, _ :: vs => encF o addr fs vs
  | some f :: fs, v :: vs =>
    if (f.omitEmpty && isEmptyV f.typ v) || (f.omitZero && isZeroV v) then encF o addr fs vs
    else do
      let j ← if f.quoted then quotedVal o f.typ v else encV o addr f.typ v
      let js ← encF o addr fs vs
      pure ((nameKey o f.name, j) :: js)
  | _, _ => .ok []
end

/-- the specification of `Marshal`: the value handed to Marshal lives in an interface, so it is not
    addressable (encode.go: `e.reflectValue(reflect.ValueOf(v), opts)`) -/
def encodeJ (o : EncOpts) (T : GoType) (v : GoVal) : Except EErr JVal := encV o false T v

def encode (o : EncOpts) (T : GoType) (v : GoVal) : Except EErr Bytes := (encodeJ o T v).map render

end SonicSpec.Enc
