/-
  C18 model, part 2: deciders of the metamorphic relations.  Given what the implementation
  returned WITHOUT a switch (`a`) and WITH it (`b`) - plus, for some switches, a third voice `x`
  (the same call on a transformed input) - decide whether the pair stands in the relation the
  property names for that switch, and in nothing else.  Core Lean only.
-/
import SonicSpec.Model.Opts

namespace SonicSpec.Opts
open SonicSpec SonicSpec.Json

/-- a result of Marshal / Unmarshal on the wire: `O:<hex>` | `E:<kind>` | `P:<panic tag>` -/
inductive Res where
  | ok (b : Bytes)
  | err (kind : String)
  | panic (tag : String)
deriving Repr, BEq

def Res.parse (s : String) : Option Res :=
  if s.startsWith "O:" then (unhexArg (if s.length == 2 then "-" else (s.drop 2).toString)).map .ok
  else if s.startsWith "E:" then some (.err (s.drop 2).toString)
  else if s.startsWith "P:" then some (.panic (s.drop 2).toString)
  else none

def Res.isErr : Res → Bool
  | .err _ => true
  | _ => false

inductive Verdict where
  | ok
  | bad (why : String)
  | skip (why : String)      -- not decidable by the model on this case (outside the model)
deriving Repr, BEq

def Verdict.and (v w : Verdict) : Verdict :=
  match v, w with
  | .bad s, _ => .bad s
  | _, .bad s => .bad s
  | .skip s, _ => .skip s
  | _, .skip s => .skip s
  | .ok, .ok => .ok

def req (c : Bool) (why : String) : Verdict := if c then .ok else .bad why

def Verdict.str : Verdict → String
  | .ok => "ok"
  | .bad s => "bad:" ++ s
  | .skip s => "skip:" ++ s

/-! ### helpers on trees -/

def countWs (s : Bytes) : Nat := (s.filter isSpace).length

def bytesSorted (s : Bytes) : List Nat := (s.map (·.toNat)).mergeSort

mutual
def hasFFFDKey : JVal → Bool
  | .arr xs => hasFFFDKeyL xs
  | .obj kvs => hasFFFDKeyM kvs
  | _ => false
def hasFFFDKeyL : List JVal → Bool
  | [] => false
  | x :: xs => hasFFFDKey x || hasFFFDKeyL xs
def hasFFFDKeyM : List Member → Bool
  | [] => false
  | (k, v) :: r => replaceAll replRaw [] (unescape k) != unescape k || hasFFFDKey v || hasFFFDKeyM r
end

def leafEq : JVal → JVal → Bool
  | .null, .null => true
  | .bool a, .bool b => a == b
  | .num a, .num b => a == b
  | .str a, .str b => a == b
  | _, _ => false

mutual
/-- `a` (without NoNullSliceOrMap), `x` (same call on the value whose nil slices and maps were replaced
    by empty ones), `b` (with the switch): `b` is `a` except that a `null` became `[]` or `{}` exactly
    where `x` has the empty container (a nil `[]byte` prints `""` when empty and `[]` under the switch) -/
def nullRel3 : JVal → JVal → JVal → Bool
  | .null, x, b =>
    match x, b with
    | .null, .null => true
    | .arr [], .arr [] => true
    | .obj [], .obj [] => true
    | .str [], .arr [] => true
    | _, _ => false
  | .arr as, .arr xs, .arr bs => nullRel3L as xs bs
  | .obj as, .obj xs, .obj bs => nullRel3M as xs bs
  | a, x, b => leafEq a x && leafEq a b
def nullRel3L : List JVal → List JVal → List JVal → Bool
  | [], [], [] => true
  | a :: as, x :: xs, b :: bs => nullRel3 a x b && nullRel3L as xs bs
  | _, _, _ => false
def nullRel3M : List Member → List Member → List Member → Bool
  | [], [], [] => true
  | (ka, a) :: as, (kx, x) :: xs, (kb, b) :: bs => ka == kx && ka == kb && nullRel3 a x b && nullRel3M as xs bs
  | _, _, _ => false
end

mutual
/-- two-tree form: `b` is `a` with some `null`s turned into `[]` or `{}`, nothing else -/
def nullRel : JVal → JVal → Bool
  | .null, b =>
    match b with
    | .null => true
    | .arr [] => true
    | .obj [] => true
    | _ => false
  | .arr as, .arr bs => nullRelL as bs
  | .obj as, .obj bs => nullRelM as bs
  | a, b => leafEq a b
def nullRelL : List JVal → List JVal → Bool
  | [], [] => true
  | a :: as, b :: bs => nullRel a b && nullRelL as bs
  | _, _ => false
def nullRelM : List Member → List Member → Bool
  | [], [] => true
  | (ka, a) :: as, (kb, b) :: bs => ka == kb && nullRel a b && nullRelM as bs
  | _, _ => false
end

/-! ### dumps of decoded values (see ocDump in go/harness/ops_opts.go)

  A dump is JSON text: leaves are strings `f:<bits>` `i:<dec>` `n:<hex>` `s:<hex>` under interface{}
  (upper-case tag in typed positions), maps are objects with keys `k<hex>` in byte order, structs are
  objects with the Go field names in declaration order. -/

def tagOf (body : Bytes) : Option (UInt8 × Bytes) :=
  match body with
  | t :: 58 :: r => some (t, r)
  | _ => none

def decStr (n : Int) : Bytes := (toString n).toUTF8.toList

def hexBytes (b : Bytes) : Bytes := (hex b).toUTF8.toList

mutual
/-- UseNumber / UseInt64 on dumps: equal trees except that a float64 leaf under interface{} (`f:`) may
    have become a json.Number leaf (`n:`, mode number) or an int64 leaf (`i:`, mode int64) -/
def numRel2 (m : NumMode) : JVal → JVal → Bool
  | .str a, .str b =>
    if a == b then
      -- under UseNumber no float64 may remain under interface{}
      match m, tagOf a with
      | .number, some (102, _) => false
      | .number, some (105, _) => false
      | _, _ => true
    else
      match tagOf a, tagOf b with
      | some (102, _), some (110, _) => m == .number
      | some (102, _), some (105, _) => m == .int64
      | some (105, _), some (110, _) => m == .number      -- UseNumber on top of UseInt64: UseNumber wins
      | _, _ => false
  | .arr as, .arr bs => numRel2L m as bs
  | .obj as, .obj bs => numRel2M m as bs
  | a, b => leafEq a b
def numRel2L (m : NumMode) : List JVal → List JVal → Bool
  | [], [] => true
  | a :: as, b :: bs => numRel2 m a b && numRel2L m as bs
  | _, _ => false
def numRel2M (m : NumMode) : List Member → List Member → Bool
  | [], [] => true
  | (ka, a) :: as, (kb, b) :: bs => ka == kb && numRel2 m a b && numRel2M m as bs
  | _, _ => false
end

/-- keep the last member of every key (decoded), then put the members into byte order of the key -/
def dedupLast : List Member → List Member
  | [] => []
  | (k, v) :: r => if r.any (fun kv => unescape kv.1 == unescape k) then dedupLast r else (k, v) :: dedupLast r

def dumpKey (k : Bytes) : Bytes := 107 :: hexBytes (unescape k)

def numLeaf (m : NumMode) (lit : Bytes) (floatLeaf : Bytes) : Bytes :=
  match anyNum m lit with
  | .f64 _ => floatLeaf
  | .i64 v => 105 :: 58 :: decStr v
  | .num l => 110 :: 58 :: hexBytes l

mutual
/-- destination interface{}: the dump `b` (with the number switch) is what the document and the dump `a`
    (without it) determine: every number literal lands as `anyNum` says, the float64 bits being those of `a`.
    First argument: fuel (any number above the size of the document is enough). -/
def numRel3 (m : NumMode) : Nat → JVal → JVal → JVal → Bool
  | 0, _, _, _ => false
  | n + 1, d, a, b =>
    match d, a, b with
    | .num lit, .str a, .str b =>
      match tagOf a with
      | some (102, _) => b == numLeaf m lit a
      | some (105, _) => m == .number && b == numLeaf m lit a
      | _ => false
    | .str s, .str a, .str b => a == b && a == 115 :: 58 :: hexBytes (unescape s)
    | .null, .null, .null => true
    | .bool d, .bool a, .bool b => d == a && a == b
    | .arr ds, .arr as, .arr bs => numRel3L m n ds as bs
    | .obj ds, .obj as, .obj bs => numRel3M m n (isort (dedupLast ds)) as bs
    | _, _, _ => false
def numRel3L (m : NumMode) : Nat → List JVal → List JVal → List JVal → Bool
  | 0, _, _, _ => false
  | _ + 1, [], [], [] => true
  | n + 1, d :: ds, a :: as, b :: bs => numRel3 m n d a b && numRel3L m n ds as bs
  | _ + 1, _, _, _ => false
def numRel3M (m : NumMode) : Nat → List Member → List Member → List Member → Bool
  | 0, _, _, _ => false
  | _ + 1, [], [], [] => true
  | n + 1, (kd, d) :: ds, (ka, a) :: as, (kb, b) :: bs =>
    dumpKey kd == ka && ka == kb && numRel3 m n d a b && numRel3M m n ds as bs
  | _ + 1, _, _, _ => false
end

/-! ### big documents: the result for `nb` repetitions is the result for `ns` repetitions, scaled

  Dumps with collapsed runs (ocDumpRuns in go/harness/ops_opts_big.go): an array is a list of runs
  `{"#":count,"v":dump}` of equal consecutive elements. -/

mutual
/-- equal trees, except that a run of `ns` elements in the small result is a run of `nb` in the big one -/
def scaleRel (ns nb : Bytes) : JVal → JVal → Bool
  | .obj [(k1, .num c1), (k2, v1)], .obj [(k1', .num c2), (k2', v2)] =>
    k1 == k1' && k2 == k2' &&
      (if k1 == [35] then (c1 == c2 || (c1 == ns && c2 == nb)) else c1 == c2) && scaleRel ns nb v1 v2
  | .arr as, .arr bs => scaleRelL ns nb as bs
  | .obj as, .obj bs => scaleRelM ns nb as bs
  | a, b => leafEq a b
def scaleRelL (ns nb : Bytes) : List JVal → List JVal → Bool
  | [], [] => true
  | a :: as, b :: bs => scaleRel ns nb a b && scaleRelL ns nb as bs
  | _, _ => false
def scaleRelM (ns nb : Bytes) : List Member → List Member → Bool
  | [], [] => true
  | (ka, a) :: as, (kb, b) :: bs => ka == kb && scaleRel ns nb a b && scaleRelM ns nb as bs
  | _, _ => false
end

/-! ### flat struct destination: the whole result is predicted -/

mutual
/-- dump of a value decoded into interface{} (no number may occur: float bits are not modelled) -/
def anyDump : Nat → JVal → Option JVal
  | 0, _ => none
  | _ + 1, .null => some .null
  | _ + 1, .bool b => some (.bool b)
  | _ + 1, .num _ => none
  | _ + 1, .str s => some (.str (115 :: 58 :: hexBytes (unescape s)))
  | n + 1, .arr xs => (anyDumpL n xs).map .arr
  | n + 1, .obj kvs => (anyDumpM n (isort (dedupLast kvs))).map .obj
def anyDumpL : Nat → List JVal → Option (List JVal)
  | 0, _ => none
  | _ + 1, [] => some []
  | n + 1, x :: xs =>
    match anyDump n x, anyDumpL n xs with
    | some y, some ys => some (y :: ys)
    | _, _ => none
def anyDumpM : Nat → List Member → Option (List Member)
  | 0, _ => none
  | _ + 1, [] => some []
  | n + 1, (k, v) :: r =>
    match anyDump n v, anyDumpM n r with
    | some y, some ys => some ((dumpKey k, y) :: ys)
    | _, _ => none
end

/-- a field of the flat destination: Go name, JSON name (none = `json:"-"`) -/
abbrev FlatField := Bytes × Option Bytes

def setNth (l : List JVal) (i : Nat) (v : JVal) : List JVal :=
  match l, i with
  | [], _ => []
  | _ :: r, 0 => v :: r
  | x :: r, i + 1 => x :: setNth r i v

/-- decode an object into a struct all of whose fields are interface{}: every member goes to the field
    `matchField` selects (a later member overwrites), a member selecting no field is skipped, or - under
    DisallowUnknownFields - is the error `unknown_field` -/
def bindFlat (caseSensitive disallow : Bool) (fields : List FlatField) (fuel : Nat) (doc : JVal) : Option Res :=
  match doc with
  | .obj kvs =>
    -- positions among the fields that have a JSON name
    let named := fields.filterMap (fun f => f.2)
    let idxOfNamed : List Nat := (fields.zipIdx.filter (fun fi => fi.1.2.isSome)).map (·.2)
    let step (acc : Option (Except Unit (List JVal))) (kv : Member) : Option (Except Unit (List JVal)) :=
      match acc with
      | none => none
      | some (.error e) => some (.error e)
      | some (.ok vals) =>
        match anyDump fuel kv.2 with
        | none => none
        | some dv =>
          match matchField caseSensitive named (unescape kv.1) with
          | some j =>
            match idxOfNamed[j]? with
            | some i => some (.ok (setNth vals i dv))
            | none => none
          | none => if disallow then some (.error ()) else some (.ok vals)
    match kvs.foldl step (some (.ok (fields.map fun _ => JVal.null))) with
    | none => none
    | some (.error _) => some (.err "unknown_field")
    | some (.ok vals) => some (.ok (render (.obj ((fields.map (·.1)).zip vals))))
  | _ => none

end SonicSpec.Opts
