/-
  C15 - the link between the two models: the abstraction `abs : NodeM → Tree`, the representation
  invariant `repOk`, and `safeAt`, the (state dependent) condition under which an operation of the
  implementation model provably behaves like the specification.  `safeAt` excludes exactly the
  operation/state combination on which the transliterated (repaired) code still deviates (see Props/C15.lean for the
  witnesses).  Core Lean only; everything is a decidable `Bool`.
-/
import SonicSpec.Model.AstNode
namespace SonicSpec.Ast

mutual
/-- the plain tree a node stands for: emptied slots vanish, unparsed text counts as parsed -/
def NodeM.abs : NodeM → Tree
  | .gone => .null
  | .null => .null
  | .bool b => .bool b
  | .num l => .num l
  | .str s => .str s
  | .raw v _ => v
  | .arrLazy pre rest => .arr (absElems pre ++ rest)
  | .objLazy pre rest => .obj (absPairs pre ++ rest)
  | .arr _ st => .arr (absElems st)
  | .obj _ st _ => .obj (absPairs st)
def absElems : List NodeM → List Tree
  | [] => []
  | x :: xs => if x.live then x.abs :: absElems xs else absElems xs
def absPairs : List (Hash × Key × NodeM) → List (Key × Tree)
  | [] => []
  | (_, k, v) :: xs => if v.live then (k, v.abs) :: absPairs xs else absPairs xs
end

def countLive {α : Type} (live : α → Bool) (st : List α) : Nat := (st.filter live).length

/-- first slot holding a live pair with key `k` -/
def firstLiveKey (k : Key) : List PairM → Option Nat
  | [] => none
  | p :: r => if pairLive p && p.2.1 == k then some 0 else (firstLiveKey k r).map (· + 1)

/-- coherence of the hash index with the store: every live pair's hash has an entry, and an entry
    that names a live pair carrying that hash names the FIRST live pair with its key.  (Entries may
    also be stale: name an unset pair or a slot that is gone.) -/
def ixOk (st : List PairM) : Option Index → Bool
  | none => true
  | some m =>
    (List.range st.length).all fun j =>
      match st[j]? with
      | some p =>
        if pairLive p then
          (match ixGet m p.1 with
           | none => false
           | some f => if f = j then firstLiveKey p.2.1 st == some j else true)
        else true
      | none => true

mutual
/-- representation invariant.  Loaded containers: the logical length is the number of live slots,
    every live slot holds a well-formed node, a live pair carries the hash of its key, an emptied
    pair is the zero `Pair{}` (no hash, empty key), the hash index is coherent (`ixOk`).
    Lazy containers: nothing emptied yet, something still unparsed.  A node in a live position is
    never `gone`. -/
def NodeM.repOk : NodeM → Bool
  | .gone => false
  | .null => true
  | .bool _ => true
  | .num _ => true
  | .str _ => true
  | .raw _ _ => true
  | .arrLazy pre rest => repElems pre && allLiveElems pre && !rest.isEmpty
  | .objLazy pre rest => repPairs pre && allLivePairs pre && !rest.isEmpty
  | .arr l st => repElems st && decide (l = countLive NodeM.live st)
  | .obj l st ix => repPairs st && decide (l = countLive pairLive st) && ixOk st ix
def repElems : List NodeM → Bool
  | [] => true
  | x :: xs => (if x.live then x.repOk else true) && repElems xs
def repPairs : List (Hash × Key × NodeM) → Bool
  | [] => true
  | (h, k, v) :: xs => (if v.live then v.repOk && h == some k else k.isEmpty && h.isNone) && repPairs xs
def allLiveElems : List NodeM → Bool
  | [] => true
  | x :: xs => x.live && allLiveElems xs
def allLivePairs : List (Hash × Key × NodeM) → Bool
  | [] => true
  | (_, _, v) :: xs => v.live && allLivePairs xs
end

/-- the three parts of the refinement statement for one call: same observation, the abstraction of
    the new node is the new tree, the invariant still holds -/
def Refines (a : Ret × NodeM) (b : Ret × Tree) : Prop :=
  a.1 = b.1 ∧ a.2.abs = b.2 ∧ a.2.repOk = true

/-! ## where the implementation model is known to deviate

With the four C15 repairs in the code only one point is left. -/

/-- `Len()` is excluded while the node is not completely loaded: it counts what has been parsed -/
def NodeM.lenSafe (n : NodeM) : Bool :=
  match n.checkRaw with
  | .arrLazy _ _ => false
  | .objLazy _ _ => false
  | _ => true

def Op.isLen : Op → Bool
  | .len => true
  | _ => false

def NodeM.safeHere (n : NodeM) : Op → Bool
  | .len => n.lenSafe
  | _ => true

/-- the condition for an operation addressed through a path: the walk (the same `Get`/`Index`
    calls as `stepAt`) is always fine, the condition is the one of the addressed node -/
def NodeM.safeAt (n : NodeM) : List Sel → Op → Bool
  | [], op => n.safeHere op
  | s :: p, op =>
    let r := n.locate s
    match r.2 with
    | none => true
    | some i =>
      match r.1.childAt i with
      | none => true
      | some c => if c.live then c.safeAt p op else true

def safeStep (n : NodeM) (o : POp) : Bool := n.safeAt o.path o.op

/-- every step of the sequence is safe in the state in which it is taken -/
def safeRun : NodeM → List POp → Bool
  | _, [] => true
  | n, o :: os => safeStep n o && safeRun (stepM n o).2 os

end SonicSpec.Ast
