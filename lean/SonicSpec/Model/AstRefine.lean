/-
  C15 - the link between the two models: the abstraction `abs : NodeM → Tree`, the representation
  invariant `repOk`, and `safeAt`, the (state dependent) condition under which an operation of the
  implementation model provably behaves like the specification.  `safeAt` excludes exactly the
  operation/state combinations on which the transliterated code deviates (see Props/C15.lean for the
  witnesses).  Core Lean only; everything is a decidable `Bool`.
-/
import SonicSpec.Model.AstNode
namespace SonicSpec.Ast

mutual
/-- the plain tree a node stands for: emptied slots vanish, unparsed text counts as parsed -/
def NodeM.abs : NodeM → Tree
  | .gone => .null
  | .null => .null
  | .bool b => .bool b
  | .num l => .num l
  | .str s => .str s
  | .raw v _ => v
  | .arrLazy pre rest => .arr (absElems pre ++ rest)
  | .objLazy pre rest => .obj (absPairs pre ++ rest)
  | .arr _ st => .arr (absElems st)
  | .obj _ st _ => .obj (absPairs st)
def absElems : List NodeM → List Tree
  | [] => []
  | x :: xs => if x.live then x.abs :: absElems xs else absElems xs
def absPairs : List (Hash × Key × NodeM) → List (Key × Tree)
  | [] => []
  | (_, k, v) :: xs => if v.live then (k, v.abs) :: absPairs xs else absPairs xs
end

def countLive {α : Type} (live : α → Bool) (st : List α) : Nat := (st.filter live).length

mutual
/-- representation invariant.  Loaded containers: the logical length is the number of live slots,
    every live slot holds a well-formed node, an emptied pair is the zero `Pair{}` (empty key).
    Lazy containers: nothing emptied yet, something still unparsed.  A node in a live position is
    never `gone`. -/
def NodeM.repOk : NodeM → Bool
  | .gone => false
  | .null => true
  | .bool _ => true
  | .num _ => true
  | .str _ => true
  | .raw _ _ => true
  | .arrLazy pre rest => repElems pre && allLiveElems pre && !rest.isEmpty
  | .objLazy pre rest => repPairs pre && allLivePairs pre && !rest.isEmpty
  | .arr l st => repElems st && decide (l = countLive NodeM.live st)
  | .obj l st _ => repPairs st && decide (l = countLive pairLive st)
def repElems : List NodeM → Bool
  | [] => true
  | x :: xs => (if x.live then x.repOk else true) && repElems xs
def repPairs : List (Hash × Key × NodeM) → Bool
  | [] => true
  | (_, k, v) :: xs => (if v.live then v.repOk else k.isEmpty) && repPairs xs
def allLiveElems : List NodeM → Bool
  | [] => true
  | x :: xs => x.live && allLiveElems xs
def allLivePairs : List (Hash × Key × NodeM) → Bool
  | [] => true
  | (_, _, v) :: xs => v.live && allLivePairs xs
end

/-- the three parts of the refinement statement for one call: same observation, the abstraction of
    the new node is the new tree, the invariant still holds -/
def Refines (a : Ret × NodeM) (b : Ret × Tree) : Prop :=
  a.1 = b.1 ∧ a.2.abs = b.2 ∧ a.2.repOk = true

/-! ## where the implementation model is known to deviate -/

/-- key lookup in an object that holds (or is about to get) a hash index, or with the empty key
    while emptied pairs are around: excluded.  `n` has passed `checkRaw`. -/
def NodeM.keySafe (n : NodeM) (k : Key) : Bool :=
  match n with
  | .obj l st ix => ix.isNone && (!k.isEmpty || st.length == l)
  | .objLazy pre rest => pre.length + rest.length ≤ 16
  | _ => true

/-- `Len()` is excluded while the node is not completely loaded -/
def NodeM.lenSafe (n : NodeM) : Bool :=
  match n.checkRaw with
  | .arrLazy _ _ => false
  | .objLazy _ _ => false
  | _ => true

/-- `Move` with an index beyond the logical length is excluded while emptied slots are around -/
def NodeM.moveSafe (n : NodeM) (d s : Nat) : Bool :=
  match n.checkRaw.skipAll with
  | .arr l st => st.length == l || (decide (d < l) && decide (s < l))
  | _ => true

def NodeM.safeHere (n : NodeM) : Op → Bool
  | .get k => n.checkRaw.keySafe k
  | .set k _ => n.checkRaw.keySafe k
  | .unset k => n.checkRaw.keySafe k
  | .len => n.lenSafe
  | .move d s => n.moveSafe d s
  | _ => true

def NodeM.selSafe (n : NodeM) : Sel → Bool
  | .key k => n.checkRaw.keySafe k
  | .idx _ => true

/-- the condition along the whole walk (it follows the same `Get`/`Index` calls as `stepAt`) -/
def NodeM.safeAt (n : NodeM) : List Sel → Op → Bool
  | [], op => n.safeHere op
  | s :: p, op =>
    n.selSafe s &&
    (let r := n.locate s
     match r.2.1 with
     | none => true
     | some i =>
       match r.1.childAt i with
       | none => true
       | some c => if c.live then c.safeAt p op else true)

def safeStep (n : NodeM) (o : POp) : Bool := n.safeAt o.path o.op

/-- every step of the sequence is safe in the state in which it is taken -/
def safeRun : NodeM → List POp → Bool
  | _, [] => true
  | n, o :: os => safeStep n o && safeRun (stepM n o).2 os

end SonicSpec.Ast
