/-
  C15 - specification side: a JSON document as a plain ordered tree (`Tree`: arrays are lists,
  objects are ordered association lists, duplicates kept) and the documented meaning of every
  `ast.Node` operation on it.  Core Lean only.

  Strings and keys are held *decoded* (the bytes the literal denotes); number literals keep
  their text.  Observations are canonical texts (`Tree.canon`): compact JSON in which every
  string is printed as the hex of its decoded bytes, so that they can be compared as byte lists.
-/
import SonicSpec.Model.Hex
import SonicSpec.Model.JsonTree
namespace SonicSpec.Ast

abbrev Key := Bytes

inductive Tree where
  | null
  | bool (b : Bool)
  | num (lit : Bytes)
  | str (s : Bytes)
  | arr (xs : List Tree)
  | obj (kvs : List (Key × Tree))
deriving Repr, Inhabited

/-! ## canonical text -/

def hexByte (c : UInt8) : Bytes :=
  let d (n : UInt8) : UInt8 := if n < 10 then 48 + n else 87 + n
  [d (c / 16), d (c % 16)]

def hexBytes : Bytes → Bytes
  | [] => []
  | c :: r => hexByte c ++ hexBytes r

def canonStr (s : Bytes) : Bytes := 34 :: (hexBytes s ++ [34])

def joinComma : List Bytes → Bytes
  | [] => []
  | [x] => x
  | x :: y :: r => x ++ 44 :: joinComma (y :: r)

mutual
def Tree.canon : Tree → Bytes
  | .null => [110, 117, 108, 108]
  | .bool true => [116, 114, 117, 101]
  | .bool false => [102, 97, 108, 115, 101]
  | .num l => l
  | .str s => canonStr s
  | .arr xs => 91 :: (joinComma (canonList xs) ++ [93])
  | .obj kvs => 123 :: (joinComma (canonPairs kvs) ++ [125])
def canonList : List Tree → List Bytes
  | [] => []
  | x :: xs => x.canon :: canonList xs
def canonPairs : List (Key × Tree) → List Bytes
  | [] => []
  | (k, v) :: kvs => (canonStr k ++ 58 :: v.canon) :: canonPairs kvs
end

/-! ## operations and observations -/

inductive Sel where
  | key (k : Key)
  | idx (i : Nat)
deriving Repr, DecidableEq

inductive Op where
  | get (k : Key) | idx (i : Nat) | len | iter
  | set (k : Key) (v : Tree) | seti (i : Nat) (v : Tree) | add (v : Tree)
  | unset (k : Key) | unseti (i : Nat) | pop | move (dst src : Nat) | sort (recurse : Bool)
  | load | raw | mar
deriving Repr

inductive ErrKind where
  | unsupported | notfound
deriving Repr, DecidableEq

/-- what one call returns.  `val t` = a node exists / a text was returned, `t` its canonical text -/
inductive Ret where
  | val (text : Bytes)
  | nx
  | err (k : ErrKind)
  | n (k : Nat)
  | b (x : Bool)
  | ok
  | notarget
  | panic
deriving Repr, DecidableEq

/-- index of the first pair with key `k` -/
def findKey {α : Type} (k : Key) : List (Key × α) → Option Nat
  | [] => none
  | (k', _) :: r => if k' = k then some 0 else (findKey k r).map (· + 1)

def isContainer : Tree → Bool
  | .arr _ => true
  | .obj _ => true
  | _ => false

/-- lexicographic order on key bytes (`lessFrom` of ast/buffer.go:418) -/
def keyLt (a b : Key) : Bool := decide (a < b)

/-- stable insertion by key: `x` goes before the first element whose key is not smaller than its own -/
def insertBy {α : Type} (key : α → Key) (x : α) : List α → List α
  | [] => [x]
  | y :: ys => if keyLt (key y) (key x) then y :: insertBy key x ys else x :: y :: ys

/-- the stable sort by key (`sort.Stable` yields the unique stable arrangement) -/
def sortBy {α : Type} (key : α → Key) : List α → List α
  | [] => []
  | x :: xs => insertBy key x (sortBy key xs)

def sortByKey {α : Type} (kvs : List (Key × α)) : List (Key × α) := sortBy (·.1) kvs

/-- `MoveOne(src, dst)` of ast/buffer.go:63 on a plain list: the element at `src` ends at `dst` -/
def moveElem {α : Type} (xs : List α) (dst src : Nat) : List α :=
  if src < xs.length ∧ dst < xs.length then
    match xs[src]? with
    | some x => (xs.eraseIdx src).insertIdx dst x
    | none => xs
  else xs

mutual
/-- `SortKeys(recurse)` (ast/node.go:1179): an object is sorted by key (stable), and every member
    too when `recurse`; an array passes the call on to each of its container elements -/
def Tree.sortKeys (recurse : Bool) : Tree → Tree
  | .obj kvs => .obj (sortByKey (if recurse then sortMembers kvs else kvs))
  | .arr xs => .arr (sortElems recurse xs)
  | t => t
def sortElems (recurse : Bool) : List Tree → List Tree
  | [] => []
  | x :: xs => x.sortKeys recurse :: sortElems recurse xs
def sortMembers : List (Key × Tree) → List (Key × Tree)
  | [] => []
  | (k, v) :: kvs => (k, v.sortKeys true) :: sortMembers kvs
end

/-- one operation applied to the node itself -/
def Tree.stepHere (t : Tree) : Op → Ret × Tree
  | .get k =>
    match t with
    | .obj kvs =>
      match findKey k kvs with
      | some i => match kvs[i]? with
        | some (_, v) => (.val v.canon, t)
        | none => (.nx, t)
      | none => (.nx, t)
    | _ => (.err .unsupported, t)
  | .idx i =>
    match t with
    | .arr xs => match xs[i]? with
      | some v => (.val v.canon, t)
      | none => (.nx, t)
    | .obj kvs => match kvs[i]? with
      | some (_, v) => (.val v.canon, t)
      | none => (.nx, t)
    | _ => (.err .unsupported, t)
  | .len =>
    match t with
    | .arr xs => (.n xs.length, t)
    | .obj kvs => (.n kvs.length, t)
    | .str s => (.n s.length, t)
    | .null => (.n 0, t)
    | _ => (.err .unsupported, t)
  | .iter =>
    match t with
    | .arr _ => (.val t.canon, t)
    | .obj _ => (.val t.canon, t)
    | _ => (.err .unsupported, t)
  | .set k v =>
    match t with
    | .obj kvs =>
      match findKey k kvs with
      | some i => (.b true, .obj (kvs.set i (k, v)))
      | none => (.b false, .obj (kvs ++ [(k, v)]))
    | .null => (.b false, .obj [(k, v)])
    | _ => (.err .unsupported, t)
  | .seti i v =>
    match t with
    | .arr xs => if i < xs.length then (.b true, .arr (xs.set i v)) else (.err .notfound, t)
    | .obj kvs =>
      match kvs[i]? with
      | some (k, _) => (.b true, .obj (kvs.set i (k, v)))
      | none => (.err .notfound, t)
    | .null => if i = 0 then (.b false, .arr [v]) else (.err .notfound, t)
    | _ => (.err .notfound, t)
  | .add v =>
    match t with
    | .arr xs => (.ok, .arr (xs ++ [v]))
    | .null => (.ok, .arr [v])
    | _ => (.err .unsupported, t)
  | .unset k =>
    match t with
    | .obj kvs =>
      match findKey k kvs with
      | some i => (.b true, .obj (kvs.eraseIdx i))
      | none => (.b false, t)
    | _ => (.err .unsupported, t)
  | .unseti i =>
    match t with
    | .arr xs => if i < xs.length then (.b true, .arr (xs.eraseIdx i)) else (.err .notfound, t)
    | .obj kvs => if i < kvs.length then (.b true, .obj (kvs.eraseIdx i)) else (.err .notfound, t)
    | _ => (.err .unsupported, t)
  | .pop =>
    match t with
    | .arr xs => (.ok, .arr xs.dropLast)
    | .obj kvs => (.ok, .obj kvs.dropLast)
    | _ => (.err .unsupported, t)
  | .move d s =>
    match t with
    | .arr xs => (.ok, .arr (moveElem xs d s))
    | _ => (.err .unsupported, t)
  | .sort r => (.ok, t.sortKeys r)
  | .load => (.ok, t)
  | .raw => (.val t.canon, t)
  | .mar => (.val t.canon, t)

/-- the child a selector designates: a key takes the first pair with that key, an index the
    i-th element of an array or the value of the i-th pair of an object -/
def Tree.child? (t : Tree) : Sel → Option Tree
  | .key k => match t with
    | .obj kvs => match findKey k kvs with
      | some i => (kvs[i]?).map (·.2)
      | none => none
    | _ => none
  | .idx i => match t with
    | .arr xs => xs[i]?
    | .obj kvs => (kvs[i]?).map (·.2)
    | _ => none

def Tree.setChild (t : Tree) (s : Sel) (c : Tree) : Tree :=
  match s with
  | .key k => match t with
    | .obj kvs => match findKey k kvs with
      | some i => .obj (kvs.set i (k, c))
      | none => t
    | _ => t
  | .idx i => match t with
    | .arr xs => .arr (xs.set i c)
    | .obj kvs => match kvs[i]? with
      | some (k, _) => .obj (kvs.set i (k, c))
      | none => t
    | _ => t

/-- an operation addressed to the node reached by `path` from the root -/
def Tree.stepAt (t : Tree) : List Sel → Op → Ret × Tree
  | [], op => t.stepHere op
  | s :: p, op =>
    match t.child? s with
    | none => (.notarget, t)
    | some c =>
      let r := c.stepAt p op
      (r.1, t.setChild s r.2)

structure POp where
  path : List Sel
  op : Op
deriving Repr

def step (t : Tree) (o : POp) : Ret × Tree := t.stepAt o.path o.op

/-- run a whole sequence; returns every observation (with the canonical text of the root after
    the step, which is what `MarshalJSON` must print) and the final tree -/
def run : Tree → List POp → List (Ret × Bytes) × Tree
  | t, [] => ([], t)
  | t, o :: os =>
    let r := step t o
    let rest := run r.2 os
    ((r.1, r.2.canon) :: rest.1, rest.2)

/-! ## from the shared JSON tree (raw string bodies) to `Tree` (decoded strings) -/

def hexv (c : UInt8) : Nat :=
  if c ≥ 48 && c ≤ 57 then (c - 48).toNat
  else if c ≥ 97 && c ≤ 102 then (c - 87).toNat
  else if c ≥ 65 && c ≤ 70 then (c - 55).toNat
  else 0

def hex4 (a b c d : UInt8) : Nat := ((hexv a * 16 + hexv b) * 16 + hexv c) * 16 + hexv d

def utf8Enc (n : Nat) : Bytes :=
  if n < 0x80 then [UInt8.ofNat n]
  else if n < 0x800 then [UInt8.ofNat (192 + n / 64), UInt8.ofNat (128 + n % 64)]
  else if n < 0x10000 then
    [UInt8.ofNat (224 + n / 4096), UInt8.ofNat (128 + n / 64 % 64), UInt8.ofNat (128 + n % 64)]
  else
    [UInt8.ofNat (240 + n / 262144), UInt8.ofNat (128 + n / 4096 % 64),
     UInt8.ofNat (128 + n / 64 % 64), UInt8.ofNat (128 + n % 64)]

/-- decode the body of a string literal accepted by `Json.scanString` (lone surrogates become
    U+FFFD; the generators do not produce them) -/
def unescape (s : Bytes) : Bytes :=
  match s with
  | [] => []
  | 92 :: 117 :: a :: b :: c :: d :: 92 :: 117 :: e :: f :: g :: h :: r' =>
    let hi := hex4 a b c d
    let lo := hex4 e f g h
    if hi ≥ 0xD800 && hi < 0xDC00 && lo ≥ 0xDC00 && lo < 0xE000 then
      utf8Enc (0x10000 + (hi - 0xD800) * 1024 + (lo - 0xDC00)) ++ unescape r'
    else if hi ≥ 0xD800 && hi < 0xE000 then [239, 191, 189] ++ unescape (92 :: 117 :: e :: f :: g :: h :: r')
    else utf8Enc hi ++ unescape (92 :: 117 :: e :: f :: g :: h :: r')
  | 92 :: 117 :: a :: b :: c :: d :: r =>
    let hi := hex4 a b c d
    if hi ≥ 0xD800 && hi < 0xE000 then [239, 191, 189] ++ unescape r
    else utf8Enc hi ++ unescape r
  | 92 :: e :: r =>
    let c : UInt8 :=
      if e == 98 then 8 else if e == 102 then 12 else if e == 110 then 10
      else if e == 114 then 13 else if e == 116 then 9 else e
    c :: unescape r
  | c :: r => c :: unescape r
termination_by s.length
decreasing_by all_goals (simp only [List.length_cons]; omega)

mutual
def ofJVal : Json.JVal → Tree
  | .null => .null
  | .bool b => .bool b
  | .num l => .num l
  | .str b => .str (unescape b)
  | .arr xs => .arr (ofJVals xs)
  | .obj kvs => .obj (ofJMembers kvs)
def ofJVals : List Json.JVal → List Tree
  | [] => []
  | x :: xs => ofJVal x :: ofJVals xs
def ofJMembers : List (Bytes × Json.JVal) → List (Key × Tree)
  | [] => []
  | (k, v) :: kvs => (unescape k, ofJVal v) :: ofJMembers kvs
end

def parseTree (doc : Bytes) : Option Tree := (Json.parseDoc doc).map ofJVal

end SonicSpec.Ast
