/-
  C18 model, part 1: what each configuration switch MEANS, as small total functions over JSON
  texts (`Bytes`) and trees (`Json.JVal`, string bodies raw), plus the `Config → option words`
  function over a wiring table (instantiated with the regenerated `Gen.frozeWires` in Proofs/Opts.lean).
  Core Lean only, no regenerated file imported (the driver links this).

  Sources transliterated / specified here:
    sonic.go:41 Froze                          -> `frozeIn` (`froze` in Proofs/Opts.lean)
    internal/encoder/encoder.go encodeFinish   -> `finish` (HTML escape, then UTF-8 correction)
    internal/encoder/stream.go:Encode          -> `streamOut`
    internal/encoder/alg/mapiter.go            -> `sortKeysP` (bytewise order of the Go key strings)
    internal/encoder/prim/primitives.go        -> `Seg`/`encSeg` (json/Text marshaler leaves)
    internal/encoder/x86 _asm_OP_empty_arr/_obj/_f64  -> `Seg.nilSlice/.nilMap/.nonFinite`
    internal/decoder/jitdec/generic_regabi_amd64.go (use_number / use_int64) -> `anyNum`
    field lookup (exact, then case-insensitive unless CaseSensitive)           -> `matchField`
-/
import SonicSpec.Model.Hex
import SonicSpec.Model.JsonTree
import SonicSpec.Model.Str
import SonicSpec.Model.StrHtml
import SonicSpec.Model.StrUtf8

namespace SonicSpec.Opts
open SonicSpec SonicSpec.Json
open SonicSpec.Str (htmlEscape correctWith)

/-! ## 1. Config → option words

  The tables (fields of `sonic.Config`, the wires of `Froze`, the setter masks) are parameters here, so
  that the driver does not depend on regenerated files; `Proofs/Opts.lean` instantiates them with the
  regenerated `Gen.configFields`, `Gen.frozeWires`, `Gen.setters`, and the correspondence hands the same
  tables to the driver at run time. -/

def findIdx (f : String) : List String → Nat → Option Nat
  | [], _ => none
  | g :: r, i => if g == f then some i else findIdx f r (i + 1)

/-- position of a field among the fields of `sonic.Config` (declaration order) -/
def fieldIdxIn (fields : List String) (f : String) : Option Nat := findIdx f fields 0

/-- a Config is a natural number: bit `i` is field `i` of `fields` -/
def fieldOnIn (fields : List String) (c : Nat) (f : String) : Bool :=
  match fieldIdxIn fields f with
  | some i => c.testBit i
  | none => false

/-- one statement `if cfg.F { api.word |= mask }` of Froze: (F, word, mask, name of the constant) -/
abbrev Wire := String × String × Int × String
def wField (w : Wire) : String := w.1
def wWord (w : Wire) : String := w.2.1
def wMask (w : Wire) : Nat := w.2.2.1.toNat

/-- one options word of `Config.Froze`: the statements `if cfg.F { api.word |= mask }` in order -/
def frozeWith (fields : List String) (ws : List Wire) (word : String) (c : Nat) : Nat :=
  ws.foldl (fun acc w => if wWord w == word && fieldOnIn fields c (wField w) then acc ||| wMask w else acc) 0

/-- `Config.Froze`: (encoder options, decoder options) -/
def frozeIn (fields : List String) (ws : List Wire) (c : Nat) : Nat × Nat :=
  (frozeWith fields ws "encoderOpts" c, frozeWith fields ws "decoderOpts" c)

/-- the same Config with switch number `s` flipped -/
def flipSwitch (c s : Nat) : Nat := c ^^^ (1 <<< s)

/-- the field (by position) whose wire owns bit `b` of `word`, if exactly one does -/
def ownerIdxIn (fields : List String) (ws : List Wire) (word : String) (b : Nat) : Option Nat :=
  match ws.filter (fun w => wWord w == word && (wMask w).testBit b) with
  | [w] => fieldIdxIn fields (wField w)
  | _ => none

def all64 : Nat := 2 ^ 64 - 1

/-- (receiver, method, takes a bool, set / clear masks when called (with true), set / clear with false) -/
abbrev Setter := String × String × Bool × Nat × Nat × Nat × Nat

/-- a setter method applied to an options word -/
def applySetterIn (setters : List Setter) (recv meth : String) (arg : Bool) (w : Nat) : Option Nat :=
  match setters.find? (fun s => s.1 == recv && s.2.1 == meth) with
  | none => none
  | some s =>
    let (setM, clrM) := if arg then (s.2.2.2.1, s.2.2.2.2.1) else (s.2.2.2.2.2.1, s.2.2.2.2.2.2)
    some ((w ||| setM) &&& (all64 ^^^ clrM))

/-! ## 2. Functions on the output text -/

/-  `encoding/json.HTMLEscape` and the UTF-8 correction are the shared string model's:
    `Str.htmlEscape` (Model/StrHtml.lean), `Str.correctWith` / `Str.validate` (Model/StrUtf8.lean),
    with their theorems in Props/C20.lean. -/

/-- the six ASCII bytes `�` (encoder) and the three bytes of U+FFFD (decoder) -/
def replEsc : Bytes := [92, 117, 102, 102, 102, 100]
def replRaw : Bytes := [239, 191, 189]

def validUtf8 (s : Bytes) : Bool := Str.validate s

/-- post-pass of `encoder.Encode` (encodeFinish): HTML escape first, then UTF-8 correction -/
def finish (html validate : Bool) (b : Bytes) : Bytes :=
  let b1 := if html then htmlEscape b else b
  if validate then correctWith replEsc b1 else b1

/-- what `Encoder.Encode` of a stream encoder writes for a document -/
def streamOut (noNewline : Bool) (doc : Bytes) : Bytes := if noNewline then doc else doc ++ [10]

/-- `json.Compact` on a valid document = rendering of its tree -/
def compactDoc (s : Bytes) : Option Bytes := (parseDoc s).map render

def isPrefix : Bytes → Bytes → Bool
  | [], _ => true
  | _ :: _, [] => false
  | a :: as, b :: bs => a == b && isPrefix as bs

/-- replace every (left-to-right, non-overlapping) occurrence of `pat` by `by` -/
def replaceAll (pat by_ : Bytes) : Bytes → Bytes
  | [] => []
  | c :: r =>
    if !pat.isEmpty && isPrefix pat (c :: r) then by_ ++ dropGo (pat.length - 1) r
    else c :: replaceAll pat by_ r
where
  /-- continue after dropping `n` more bytes of the matched pattern -/
  dropGo : Nat → Bytes → Bytes
    | 0, r => replaceAll pat by_ r
    | _ + 1, [] => []
    | n + 1, _ :: r => dropGo n r

/-- apply `f` to every string token (quotes included) of a JSON-like text, copy the rest.
    `tok` = reversed bytes of the token being read; `esc` = previous byte was a backslash;
    `keepKeys`: a token directly followed by `:` is copied unchanged. -/
def mapTokensGo (f : Bytes → Bytes) (keepKeys : Bool) : Option (Bytes × Bool) → Bytes → Bytes
  | none, [] => []
  | some (tok, _), [] => tok.reverse          -- unterminated token: copied
  | none, c :: r => if c == 34 then mapTokensGo f keepKeys (some ([34], false)) r else c :: mapTokensGo f keepKeys none r
  | some (tok, esc), c :: r =>
    if esc then mapTokensGo f keepKeys (some (c :: tok, false)) r
    else if c == 92 then mapTokensGo f keepKeys (some (c :: tok, true)) r
    else if c == 34 then
      (if keepKeys && r.head? == some 58 then (c :: tok).reverse else f (c :: tok).reverse) ++ mapTokensGo f keepKeys none r
    else mapTokensGo f keepKeys (some (c :: tok, false)) r

def mapTokens (f : Bytes → Bytes) (s : Bytes) : Bytes := mapTokensGo f false none s
def mapValueTokens (f : Bytes → Bytes) (s : Bytes) : Bytes := mapTokensGo f true none s

/-- bodies of the string tokens of a text (lenient: raw control bytes allowed), in order -/
def stringBodiesGo : Option (Bytes × Bool) → Bytes → List Bytes
  | _, [] => []
  | none, c :: r => if c == 34 then stringBodiesGo (some ([], false)) r else stringBodiesGo none r
  | some (tok, esc), c :: r =>
    if esc then stringBodiesGo (some (c :: tok, false)) r
    else if c == 92 then stringBodiesGo (some (c :: tok, true)) r
    else if c == 34 then tok.reverse :: stringBodiesGo none r
    else stringBodiesGo (some (c :: tok, false)) r

def stringBodies (s : Bytes) : List Bytes := stringBodiesGo none s

/-! ## 3. String bodies: decoding of escapes (needed to order keys by the Go string) -/

def hexv (c : UInt8) : Option Nat :=
  if 48 ≤ c && c ≤ 57 then some (c.toNat - 48)
  else if 97 ≤ c && c ≤ 102 then some (c.toNat - 87)
  else if 65 ≤ c && c ≤ 70 then some (c.toNat - 55)
  else none

def hex4 (a b c d : UInt8) : Option Nat :=
  match hexv a, hexv b, hexv c, hexv d with
  | some w, some x, some y, some z => some (((w * 16 + x) * 16 + y) * 16 + z)
  | _, _, _, _ => none

def utf8Enc (cp : Nat) : Bytes :=
  if cp < 128 then [UInt8.ofNat cp]
  else if cp < 2048 then [UInt8.ofNat (192 + cp / 64), UInt8.ofNat (128 + cp % 64)]
  else if cp < 65536 then [UInt8.ofNat (224 + cp / 4096), UInt8.ofNat (128 + cp / 64 % 64), UInt8.ofNat (128 + cp % 64)]
  else [UInt8.ofNat (240 + cp / 262144), UInt8.ofNat (128 + cp / 4096 % 64), UInt8.ofNat (128 + cp / 64 % 64), UInt8.ofNat (128 + cp % 64)]

def isHighSur (n : Nat) : Bool := 55296 ≤ n && n < 56320
def isLowSur (n : Nat) : Bool := 56320 ≤ n && n < 57344

/-- escapes of a raw string body decoded (lone surrogates become U+FFFD, unknown escapes are kept) -/
def unescapeF : Nat → Bytes → Bytes
  | 0, _ => []
  | _, [] => []
  | n + 1, 92 :: 117 :: a :: b :: c :: d :: r =>
    match hex4 a b c d with
    | none => 92 :: unescapeF n (117 :: a :: b :: c :: d :: r)
    | some hi =>
      if isHighSur hi then
        match r with
        | 92 :: 117 :: e :: f :: g :: h :: r' =>
          match hex4 e f g h with
          | some lo =>
            if isLowSur lo then utf8Enc (65536 + (hi - 55296) * 1024 + (lo - 56320)) ++ unescapeF n r'
            else replRaw ++ unescapeF n r
          | none => replRaw ++ unescapeF n r
        | _ => replRaw ++ unescapeF n r
      else if isLowSur hi then replRaw ++ unescapeF n r
      else utf8Enc hi ++ unescapeF n r
  | n + 1, 92 :: e :: r =>
    let o : Option UInt8 :=
      if e == 34 then some 34 else if e == 92 then some 92 else if e == 47 then some 47
      else if e == 98 then some 8 else if e == 102 then some 12 else if e == 110 then some 10
      else if e == 114 then some 13 else if e == 116 then some 9 else none
    match o with
    | some x => x :: unescapeF n r
    | none => 92 :: unescapeF n (e :: r)
  | n + 1, c :: r => c :: unescapeF n r

def unescape (s : Bytes) : Bytes := unescapeF (s.length + 1) s

/-- does a raw body contain a `\uXXXX` escape of a surrogate that is not part of a pair? -/
def loneSurF : Nat → Bytes → Bool
  | 0, _ => false
  | _, [] => false
  | n + 1, 92 :: 117 :: a :: b :: c :: d :: r =>
    match hex4 a b c d with
    | none => loneSurF n r
    | some hi =>
      if isHighSur hi then
        match r with
        | 92 :: 117 :: e :: f :: g :: h :: r' =>
          match hex4 e f g h with
          | some lo => if isLowSur lo then loneSurF n r' else true
          | none => true
        | _ => true
      else if isLowSur hi then true
      else loneSurF n r
  | n + 1, 92 :: _ :: r => loneSurF n r
  | n + 1, _ :: r => loneSurF n r

def hasLoneSurrogate (body : Bytes) : Bool := loneSurF (body.length + 1) body

/-! ## 4. SortMapKeys on trees -/

/-- bytewise (lexicographic) order, the order of Go strings -/
def lexLe : Bytes → Bytes → Bool
  | [], _ => true
  | _ :: _, [] => false
  | a :: as, b :: bs => a < b || (a == b && lexLe as bs)

abbrev Member := Bytes × JVal

def keyLe (a b : Member) : Bool := lexLe (unescape a.1) (unescape b.1)

def insertM (x : Member) : List Member → List Member
  | [] => [x]
  | y :: ys => if keyLe x y then x :: y :: ys else y :: insertM x ys

/-- stable insertion sort by key -/
def isort : List Member → List Member
  | [] => []
  | x :: xs => insertM x (isort xs)

/-- an object whose members all have a key accepted by `kp` (and that is not empty) keeps its order:
    that is how the correspondence tells struct objects (fixed field order) from map objects -/
def isFixed (kp : Bytes → Bool) (kvs : List Member) : Bool := !kvs.isEmpty && kvs.all (fun kv => kp kv.1)

mutual
/-- every map object's members put into bytewise key order, recursively; nothing else touched -/
def sortKeysP (kp : Bytes → Bool) : JVal → JVal
  | .arr xs => .arr (sortElems kp xs)
  | .obj kvs =>
    let kvs' := sortMembers kp kvs
    if isFixed kp kvs' then .obj kvs' else .obj (isort kvs')
  | .null => .null
  | .bool b => .bool b
  | .num l => .num l
  | .str s => .str s
def sortElems (kp : Bytes → Bool) : List JVal → List JVal
  | [] => []
  | x :: xs => sortKeysP kp x :: sortElems kp xs
def sortMembers (kp : Bytes → Bool) : List Member → List Member
  | [] => []
  | (k, v) :: r => (k, sortKeysP kp v) :: sortMembers kp r
end

/-- SortMapKeys on a tree all of whose objects are maps -/
def sortKeys (t : JVal) : JVal := sortKeysP (fun _ => false) t

/-- keys accepted as "struct member" by the correspondence: first byte is `F` -/
def structKey (k : Bytes) : Bool := k.head? == some 70

/-! ## 5. The encoder switches on a linear template of the output -/

/-- an output is a sequence of segments; only the segments a switch looks at are distinguished -/
inductive Seg where
  | raw (b : Bytes)          -- everything no switch touches
  | nilSlice | nilMap        -- a nil slice / a nil map
  | nonFinite                -- a NaN or ±Inf float
  | text (t : Bytes)         -- what a TextMarshaler returned
  | jm (r : Bytes)           -- what a json.Marshaler returned
deriving Repr, DecidableEq

structure EncOpts where
  html : Bool := false
  compact : Bool := false
  noQuote : Bool := false
  noNull : Bool := false
  validate : Bool := false
  noValidateJM : Bool := false
  noNewline : Bool := false
  nullNaN : Bool := false
deriving Repr, DecidableEq

inductive EncErr where
  | unsupportedValue | marshaler
deriving Repr, DecidableEq

def nullText : Bytes := [110, 117, 108, 108]

/-- one segment (prim.EncodeJsonMarshaler / EncodeTextMarshaler, _asm_OP_empty_arr/_obj, _asm_OP_f64) -/
def encSeg (o : EncOpts) : Seg → Except EncErr Bytes
  | .raw b => .ok b
  | .nilSlice => .ok (if o.noNull then [91, 93] else nullText)
  | .nilMap => .ok (if o.noNull then [123, 125] else nullText)
  | .nonFinite => if o.nullNaN then .ok nullText else .error .unsupportedValue
  | .text t => .ok (if o.noQuote then t else Str.quote t)
  | .jm r =>
    if o.compact then
      match compactDoc r with
      | some c => .ok c
      | none => .error .marshaler
    else if o.noValidateJM then .ok r
    else if (parseDoc r).isSome then .ok r else .error .marshaler

def encPlain (o : EncOpts) : List Seg → Except EncErr Bytes
  | [] => .ok []
  | s :: r =>
    match encSeg o s with
    | .error e => .error e
    | .ok b =>
      match encPlain o r with
      | .error e => .error e
      | .ok bs => .ok (b ++ bs)

/-- `Marshal` under the option set -/
def encode (o : EncOpts) (segs : List Seg) : Except EncErr Bytes :=
  match encPlain o segs with
  | .error e => .error e
  | .ok b => .ok (finish o.html o.validate b)

/-- `NewEncoder(w).Encode` under the option set -/
def encodeStream (o : EncOpts) (segs : List Seg) : Except EncErr Bytes :=
  match encode o segs with
  | .error e => .error e
  | .ok b => .ok (streamOut o.noNewline b)

/-! ## 6. Numbers under interface{} -/

inductive NumMode where
  | float | int64 | number
deriving Repr, DecidableEq

def allDigits : Bytes → Bool
  | [] => true
  | c :: r => isDigit c && allDigits r

def digitsVal (ds : Bytes) : Nat := ds.foldl (fun acc d => acc * 10 + (d.toNat - 48)) 0

/-- the value of a literal that is written as an integer (`-? digits`), else none -/
def intLit? (lit : Bytes) : Option Int :=
  match lit with
  | 45 :: ds => if !ds.isEmpty && allDigits ds then some (-(Int.ofNat (digitsVal ds))) else none
  | ds => if !ds.isEmpty && allDigits ds then some (Int.ofNat (digitsVal ds)) else none

def fitsInt64 (i : Int) : Bool := decide (-(2 : Int) ^ 63 ≤ i) && decide (i < (2 : Int) ^ 63)

/-- what a number literal becomes inside an interface{} -/
inductive AnyNum where
  | f64 (lit : Bytes)      -- float64 nearest to the literal
  | i64 (v : Int)
  | num (lit : Bytes)      -- json.Number, the literal itself
deriving Repr, DecidableEq

def anyNum (m : NumMode) (lit : Bytes) : AnyNum :=
  match m with
  | .float => .f64 lit
  | .number => .num lit
  | .int64 =>
    match intLit? lit with
    | some v => if fitsInt64 v then .i64 v else .f64 lit
    | none => .f64 lit

/-- a value decoded into interface{} -/
inductive AnyVal where
  | null
  | bool (b : Bool)
  | number (n : AnyNum)
  | str (body : Bytes)
  | arr (xs : List AnyVal)
  | obj (kvs : List (Bytes × AnyVal))

mutual
def toAny (m : NumMode) : JVal → AnyVal
  | .null => .null
  | .bool b => .bool b
  | .num l => .number (anyNum m l)
  | .str s => .str s
  | .arr xs => .arr (toAnyL m xs)
  | .obj kvs => .obj (toAnyM m kvs)
def toAnyL (m : NumMode) : List JVal → List AnyVal
  | [] => []
  | x :: xs => toAny m x :: toAnyL m xs
def toAnyM (m : NumMode) : List Member → List (Bytes × AnyVal)
  | [] => []
  | (k, v) :: r => (k, toAny m v) :: toAnyM m r
end

def retagNum (m : NumMode) : AnyNum → AnyNum
  | .f64 lit => anyNum m lit
  | n => n

mutual
/-- the tree transformation "UseNumber / UseInt64": only number leaves are looked at -/
def retag (m : NumMode) : AnyVal → AnyVal
  | .number n => .number (retagNum m n)
  | .arr xs => .arr (retagL m xs)
  | .obj kvs => .obj (retagM m kvs)
  | .null => .null
  | .bool b => .bool b
  | .str s => .str s
def retagL (m : NumMode) : List AnyVal → List AnyVal
  | [] => []
  | x :: xs => retag m x :: retagL m xs
def retagM (m : NumMode) : List (Bytes × AnyVal) → List (Bytes × AnyVal)
  | [] => []
  | (k, v) :: r => (k, retag m v) :: retagM m r
end

/-! ## 7. Field matching -/

def lowerByte (c : UInt8) : UInt8 := if 65 ≤ c && c ≤ 90 then c + 32 else c
def lowerAscii (s : Bytes) : Bytes := s.map lowerByte

def findName (p : Bytes → Bool) : List Bytes → Nat → Option Nat
  | [], _ => none
  | f :: r, i => if p f then some i else findName p r (i + 1)

/-- which field (by position) an object key selects: the exactly equal name first, otherwise - unless
    CaseSensitive - the first name equal up to ASCII case -/
def matchField (caseSensitive : Bool) (fields : List Bytes) (key : Bytes) : Option Nat :=
  match findName (fun f => f == key) fields 0 with
  | some i => some i
  | none => if caseSensitive then none else findName (fun f => lowerAscii f == lowerAscii key) fields 0

/-! ## 8. Skipping a value with and without validation -/

/-- the non-validating skipper as a state machine over the bytes: `d` = brackets still open,
    `inStr` / `esc` = inside a string literal / directly after a backslash.  It only looks for quotes,
    backslashes and brackets; with no bracket open it stops and returns the rest. -/
def skipRun : Nat → Bool → Bool → Bytes → Option Bytes
  | 0, _, _, s => some s
  | _ + 1, _, _, [] => none
  | d + 1, true, true, _ :: r => skipRun (d + 1) true false r
  | d + 1, true, false, c :: r =>
    if c == 92 then skipRun (d + 1) true true r
    else if c == 34 then skipRun (d + 1) false false r
    else skipRun (d + 1) true false r
  | d + 1, false, _, c :: r =>
    if c == 34 then skipRun (d + 1) true false r
    else if c == 91 || c == 123 then skipRun (d + 2) false false r
    else if c == 93 || c == 125 then skipRun d false false r
    else skipRun (d + 1) false false r

/-- skipping one array / object at the head of `s`: by default the strict grammar decides where it ends
    (and whether it is well-formed at all); under NoValidateJSONSkip only brackets and quotes are matched -/
def skipContainer (noValidate : Bool) (s : Bytes) : Option Bytes :=
  match s with
  | c :: r =>
    if c == 91 || c == 123 then
      if noValidate then skipRun 1 false false r
      else (parseVal (s.length + 1) s).map (·.2)
    else none
  | [] => none

/-! ## 9. Decoding into interface{} under the decoder switches that have a value-level meaning -/

structure DecOpts where
  useInt64 : Bool := false
  useNumber : Bool := false
  copyString : Bool := false      -- where the bytes of a decoded string live: not part of any result
deriving Repr, DecidableEq

def DecOpts.mode (o : DecOpts) : NumMode := if o.useNumber then .number else if o.useInt64 then .int64 else .float

/-- `Unmarshal(doc, &interface{})` on a well-formed document -/
def decodeAny (o : DecOpts) (doc : Bytes) : Option AnyVal := (parseDoc doc).map (toAny o.mode)

end SonicSpec.Opts
