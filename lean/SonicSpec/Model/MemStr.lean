/-
  Core I, string routines: the four native routines behind Quote / unquote / HTMLEscape / utf8.Validate as the
  C writes them - block-wise searches over a partial memory (`Scan.run`, parametric in the list of block
  widths), table copies, output budgets, restart protocol - on top of the scalar tables of core B
  (Model/Str*.lean).  Core Lean only.

    native/parsing.h:138  memcchr_quote        `budgetFind quoteSpecial`   (search + copy under an output budget)
    native/parsing.h:251  memcchr_quote_unsafe `quoteUnsafe`
    native/quote.c        quote                `quoteNative`, Go loop spec.go:76 `quoteGo`
    native/parsing.h:528  memcchr_html_quote   `budgetFind htmlSpecial`
    native/html_escape.c  html_escape          `htmlNative`, Go loop spec.go:136 `htmlGo`
    native/parsing.h:395  memcchr_p32          `findSpecial isBackslash`
    native/unquote.c      unquote              `unquoteNative` (escapes: the scalar `Str.escStep`)
    native/utf8.h:470     validate_utf8_avx2   `utf8Vec` (ASCII fast path per block, lookup check otherwise)
    native/utf8.h:180     validate_utf8_errors `utf8Scalar`;  validate_utf8_fast.c `utf8Fast`

  None of these routines over-reads on purpose: every vector load is guarded by `nb >= W` (vec_cross_page is only
  used by skip_container_fast and xmemcmpeq, scanning.h:1482,1595).  Output is modelled as the list of bytes that
  are logically written (`dp[0 .. *dn)`); the wider stores behind it belong to the ownership core (C06).
-/
import SonicSpec.Model.MemScan
import SonicSpec.Model.Str
namespace SonicSpec.Mem
open SonicSpec.Str

/-- the reader shows the bytes `s` at offsets `0 .. s.length`: every input byte mapped, with that content
    (what lies behind the input - mapped or not - is arbitrary) -/
def Holds (rd : Rd) (s : Bytes) : Prop := ∀ i, i < s.length → rd i = s[i]?

/-! ### search + copy under an output budget: memcchr_quote, memcchr_html_quote -/

/-- one round with `dn` bytes of output left.  `while (nb >= W && dn >= W)`: full store, return at the first
    special byte; `if (nb >= W)` (so `dn < W`): partial store - `fv = ctz(mask | 1 << W)`, `fv <= dn` ⇒ found at
    `fv`, else `dn` bytes copied and `-(sp - ss + dn) - 1`.  Result `(position, nonnegative?)`. -/
def bfBlk (special : UInt8 → Bool) (dn : Nat) (off : Nat) (bs : Bytes) : Step Nat (Nat × Bool) :=
  if dn ≥ bs.length then
    match ctz (bs.map special) with
    | some i => .done (off + i, true)
    | none => .cont (dn - bs.length)
  else
    match ctz (bs.map special) with
    | some i => if i ≤ dn then .done (off + i, true) else .done (off + dn, false)
    | none => .done (off + dn, false)

/-- `while (nb > 0 && dn > 0) { if (special) return sp - ss; dn--, nb--; *dp++ = *sp++; }` -/
def bfStep (special : UInt8 → Bool) (dn : Nat) (off : Nat) (b : UInt8) : Step Nat (Nat × Bool) :=
  if dn = 0 then .done (off, false) else if special b then .done (off, true) else .cont (dn - 1)

def bfScan (special : UInt8 → Bool) : Scan Nat (Nat × Bool) where
  blk := bfBlk special
  tail := scalarLoop (bfStep special) (fun _ off => (off, true))     -- `if (nb == 0) return sp - ss`

/-- `(q, ok)`: the bytes `[p, q)` were copied; `ok` = the return value is `q - p ≥ 0`, else it is `-(q - p) - 1` -/
def budgetFind (special : UInt8 → Bool) (Ws : List Nat) (rd : Rd) (len p dn : Nat) : Option (Nat × Bool) :=
  (bfScan special).run rd len Ws dn p

/-! ### quote -/

/-- result of one native call: bytes written (`*dn` of them), input consumed, `done` = return value ≥ 0 -/
structure CallRes where
  out : Bytes
  consumed : Nat
  done : Bool
  deriving DecidableEq, Repr

/-- `tab[ch].n` / `tab[ch].s` of `_SingleQuoteTab` / `_DoubleQuoteTab`: entries exist for the special bytes only -/
def quoteImg (tab : UInt8 → Bytes) (c : UInt8) : Bytes := if quoteSpecial c then tab c else []

/-- quote.c:22-62, both loops; `esc` = inside the inner `while` (consecutive escapes).  `fuel` bounds the number of
    loop heads passed (two per consumed byte at most). -/
def quoteRun (Ws : List Nat) (tab : UInt8 → Bytes) (rd : Rd) (len : Nat) :
    Nat → Bool → Nat → Nat → Bytes → Option CallRes
  | 0, _, p, _, out => some ⟨out, p, false⟩
  | fuel + 1, esc, p, nd, out =>
    if p = len then some ⟨out, p, true⟩                       -- `nb == 0`: `*dn = dp - ds; return sp - ss`
    else if esc then
      match rd p with                                          -- `ch = *sp` (nb != 0)
      | none => none
      | some ch =>
        let img := quoteImg tab ch
        if img.length = 0 then quoteRun Ws tab rd len fuel false p nd out      -- `nc == 0`: break
        else if img.length > nd then some ⟨out, p, false⟩                       -- `return -(sp - ss) - 1`
        else quoteRun Ws tab rd len fuel true (p + 1) (nd - img.length) (out ++ img)
    else
      match budgetFind quoteSpecial Ws rd len p nd with        -- `rb = memcchr_quote(sp, nb, dp, nd)`
      | none => none
      | some (q, ok) =>
        match loadW rd (q - p) p with                          -- the bytes it copied
        | none => none
        | some plain =>
          if ok then quoteRun Ws tab rd len fuel true q (nd - (q - p)) (out ++ plain)
          else some ⟨out ++ plain, q, false⟩                   -- `rb < 0`

/-- memcchr_quote_unsafe (parsing.h:251): `dn >= nb * 8`, no budget checks; rounds `Ws` (AVX2 32,16,8,4; SSE 16,8,4:
    the 8- and 4-byte steps use `escape_mask4`), then the escape loop; always consumes everything -/
def quoteUnsafe (Ws : List Nat) (tab : UInt8 → Bytes) (rd : Rd) (len : Nat) : Nat → Bool → Nat → Bytes → Option Bytes
  | 0, _, _, out => some out
  | fuel + 1, esc, p, out =>
    if p = len then some out
    else if esc then
      match rd p with
      | none => none
      | some ch =>
        if quoteSpecial ch then quoteUnsafe Ws tab rd len fuel true (p + 1) (out ++ tab ch)
        else quoteUnsafe Ws tab rd len fuel false p out        -- `goto simd_copy`
    else
      match findSpecial quoteSpecial Ws rd len p with
      | none => none
      | some q =>
        match loadW rd (q - p) p with
        | none => none
        | some plain => quoteUnsafe Ws tab rd len fuel true q (out ++ plain)

structure StrWidths where
  find : List Nat        -- memcchr_quote, memcchr_html_quote, memcchr_p32
  fast : List Nat        -- memcchr_quote_unsafe
  utf8 : List Nat        -- validate_utf8_avx2 (empty = the routine does not exist in this build)
  deriving Repr

def StrWidths.avx2 : StrWidths := ⟨[32, 16], [32, 16, 8, 4], [128, 64]⟩
def StrWidths.sse : StrWidths := ⟨[16], [16, 8, 4], []⟩

/-- `quote(sp, nb, dp, &dn, flags)` on the input `[p, len)` with `room` bytes of output -/
def quoteNative (w : StrWidths) (tab : UInt8 → Bytes) (rd : Rd) (len p room : Nat) : Option CallRes :=
  if room ≥ (len - p) * 8 then
    (quoteUnsafe w.fast tab rd len (2 * (len - p) + 2) false p []).map fun o => ⟨o, len, true⟩
  else quoteRun w.find tab rd len (2 * (len - p) + 2) false p room []

/-- spec.go:76 `Quote` (without the surrounding quotes): native calls on the rest with a grown buffer until one
    returns ≥ 0.  `rooms` = free space offered to the successive calls; after the list the buffer has grown past
    eight times the rest (the real policy doubles the capacity, so this happens). -/
def quoteGo (w : StrWidths) (tab : UInt8 → Bytes) (rd : Rd) (len : Nat) : List Nat → Nat → Bytes → Option Bytes
  | [], p, buf => (quoteNative w tab rd len p ((len - p) * 8)).map fun r => buf ++ r.out
  | room :: rooms, p, buf =>
    match quoteNative w tab rd len p room with
    | none => none
    | some r => if r.done then some (buf ++ r.out) else quoteGo w tab rd len rooms r.consumed (buf ++ r.out)

/-! ### html_escape -/

/-- `_HtmlQuoteTab[ch]` (parsing.h:104): `<`, `>`, `&`, and the third bytes A8 / A9 of U+2028 / U+2029 -/
def htmlImg (c : UInt8) : Bytes :=
  if c == 60 then htmlLt else if c == 62 then htmlGt else if c == 38 then htmlAmp
  else if c == 168 then htmlLS else if c == 169 then htmlPS else []

/-- html_escape.c:41-70, the special byte at `q`: how many input bytes it takes with it and what is written.
    `E2 80 A8/A9` (only looked at when `nb >= 3`) is one token whose table entry is that of the third byte;
    any other `E2` is copied (`*dp++ = *sp++`, needs `nd > 0`); else `tab[ch]` (`nd >= nc`). -/
def htmlTok (rd : Rd) (len q : Nat) : Option (Nat × Bytes) :=
  match rd q with
  | none => none
  | some c =>
    if c == 226 then
      if q + 3 ≤ len then
        match rd (q + 1), rd (q + 2) with
        | some x, some y => if x == 128 && (y == 168 || y == 169) then some (3, htmlImg y) else some (1, [c])
        | _, _ => none
      else some (1, [c])
    else some (1, htmlImg c)

/-- html_escape.c:11-72, one pass of the `while (nb > 0)` loop per unit of fuel -/
def htmlRun (Ws : List Nat) (rd : Rd) (len : Nat) : Nat → Nat → Nat → Bytes → Option CallRes
  | 0, p, _, out => some ⟨out, p, false⟩
  | fuel + 1, p, nd, out =>
    if p ≥ len then some ⟨out, p, true⟩
    else if nd = 0 then some ⟨out, p, false⟩                                   -- `nd <= 0`
    else
      match budgetFind htmlSpecial Ws rd len p nd with
      | none => none
      | some (q, ok) =>
        match loadW rd (q - p) p with
        | none => none
        | some plain =>
          let out := out ++ plain
          let nd := nd - (q - p)
          if !ok then some ⟨out, q, false⟩
          else if q ≥ len then some ⟨out, q, true⟩                             -- `nb <= 0`: break
          else
            match htmlTok rd len q with
            | none => none
            | some (k, img) =>
              if nd < img.length then some ⟨out, q, false⟩          -- `return -(cur - ss) - 1` (resp. `-(sp - ss) - 1`)
              else htmlRun Ws rd len fuel (q + k) (nd - img.length) (out ++ img)

def htmlNative (w : StrWidths) (rd : Rd) (len p room : Nat) : Option CallRes :=
  htmlRun w.find rd len (len - p + 1) p room []

/-- spec.go:136 `HtmlEscape`: as `quoteGo`; after the list the buffer is at least six times the rest plus one -/
def htmlGo (w : StrWidths) (rd : Rd) (len : Nat) : List Nat → Nat → Bytes → Option Bytes
  | [], p, buf => (htmlNative w rd len p ((len - p) * 6 + 1)).map fun r => buf ++ r.out
  | room :: rooms, p, buf =>
    match htmlNative w rd len p room with
    | none => none
    | some r => if r.done then some (buf ++ r.out) else htmlGo w rd len rooms r.consumed (buf ++ r.out)

/-! ### unquote -/

/-- unquote.c:11-197: `memcchr_p32` copies up to the next backslash (vector rounds `Ws`); the escape behind it is
    decoded by the scalar code, i.e. by `Str.escStep` on the bytes that are left (all inside the input).
    The destination has `nb` bytes (unquote.go:34), which is always enough. -/
def unquoteRun (unirep dbl : Bool) (Ws : List Nat) (rd : Rd) (len : Nat) : Nat → Nat → Bytes → Option (Except UErr Bytes)
  | 0, _, out => some (.ok out)
  | fuel + 1, p, out =>
    if p ≥ len then some (.ok out)
    else
      match findSpecial isBackslash Ws rd len p with              -- `*sp == '\\' ? 0 : memcchr_p32(...)`
      | none => none
      | some q =>
        match loadW rd (q - p) p with
        | none => none
        | some plain =>
          if q ≥ len then some (.ok (out ++ plain))               -- `-1`: nothing found, everything copied
          else
            match loadW rd (len - (q + 1)) (q + 1) with           -- what lies behind the backslash
            | none => none
            | some t =>
              match escStep unirep dbl t with
              | .error e => some (.error e)
              | .ok (o, r) => unquoteRun unirep dbl Ws rd len fuel (len - r.length) (out ++ plain ++ o)

def unquoteNative (w : StrWidths) (unirep dbl : Bool) (rd : Rd) (len : Nat) : Option (Except UErr Bytes) :=
  unquoteRun unirep dbl w.find rd len (len + 1) 0 []

/-! ### UTF-8 validation -/

/-- scalar validator (utf8.h:180): 4-byte loads while `start < end - 3`, `memcpy_p4` of what is left behind -
    all inside the input; verdict = `Str.validate` of the bytes -/
def utf8Scalar (rd : Rd) (len : Nat) : Option Bool :=
  (loadW rd len 0).map validate

/-! The vector validator (utf8.h:214-493, the "lookup" algorithm): per byte, three nibble look-ups on
    (previous byte, this byte) and a must-be-continuation test on the bytes two and three back. -/

def u8TooShort : UInt8 := 1
def u8TooLong : UInt8 := 2
def u8Overlong3 : UInt8 := 4
def u8TooLarge : UInt8 := 8
def u8Surrogate : UInt8 := 16
def u8Overlong2 : UInt8 := 32
def u8TooLarge1000 : UInt8 := 64      -- = OVERLONG_4
def u8TwoConts : UInt8 := 128
def u8Carry : UInt8 := 1 ||| 2 ||| 128

/-- utf8.h:279 `tab1`, indexed by the high nibble of the previous byte -/
def u8Tab1 (n : UInt8) : UInt8 :=
  if n < 8 then u8TooLong
  else if n < 12 then u8TwoConts
  else if n == 12 then u8TooShort ||| u8Overlong2
  else if n == 13 then u8TooShort
  else if n == 14 then u8TooShort ||| u8Overlong3 ||| u8Surrogate
  else u8TooShort ||| u8TooLarge ||| u8TooLarge1000

/-- utf8.h:299 `tab2`, indexed by the low nibble of the previous byte -/
def u8Tab2 (n : UInt8) : UInt8 :=
  if n == 0 then u8Carry ||| u8Overlong3 ||| u8Overlong2 ||| u8TooLarge1000
  else if n == 1 then u8Carry ||| u8Overlong2
  else if n < 4 then u8Carry
  else if n == 4 then u8Carry ||| u8TooLarge
  else if n == 13 then u8Carry ||| u8TooLarge ||| u8TooLarge1000 ||| u8Surrogate
  else u8Carry ||| u8TooLarge ||| u8TooLarge1000

/-- utf8.h:331 `tab3`, indexed by the high nibble of this byte -/
def u8Tab3 (n : UInt8) : UInt8 :=
  if n < 8 then u8TooShort
  else if n == 8 then u8TooLong ||| u8Overlong2 ||| u8TwoConts ||| u8Overlong3 ||| u8TooLarge1000
  else if n == 9 then u8TooLong ||| u8Overlong2 ||| u8TwoConts ||| u8Overlong3 ||| u8TooLarge
  else if n < 12 then u8TooLong ||| u8Overlong2 ||| u8TwoConts ||| u8Surrogate ||| u8TooLarge
  else u8TooShort

/-- `check_utf8_bytes` for one byte position: `p3 p2 p1` the three bytes in front, `c` this byte -/
def u8Err (p3 p2 p1 c : UInt8) : Bool :=
  let sc := u8Tab1 (p1 >>> 4) &&& u8Tab2 (p1 &&& 15) &&& u8Tab3 (c >>> 4)
  let must23 : UInt8 := if p2 ≥ 224 || p3 ≥ 240 then 128 else 0
  (must23 ^^^ sc) != 0

/-- errors of a run of bytes given the three bytes in front of it -/
def u8Errs : UInt8 → UInt8 → UInt8 → Bytes → Bool
  | _, _, _, [] => false
  | p3, p2, p1, c :: t => u8Err p3 p2 p1 c || u8Errs p2 p1 c t

/-- `is_incomplete`: the block ends inside a multi-byte sequence -/
def u8Incomplete (p3 p2 p1 : UInt8) : Bool := p3 ≥ 240 || p2 ≥ 224 || p1 ≥ 192

/-- last three bytes of `prev ++ bs` -/
def u8Last3 : UInt8 → UInt8 → UInt8 → Bytes → UInt8 × UInt8 × UInt8
  | p3, p2, p1, [] => (p3, p2, p1)
  | _, p2, p1, c :: t => u8Last3 p2 p1 c t

structure U8St where
  err : Bool
  p3 : UInt8
  p2 : UInt8
  p1 : UInt8
  inc : Bool          -- prev_incomplete
  deriving DecidableEq, Repr

/-- `check64` on one 64-byte unit (utf8.h:410): all ASCII ⇒ only `prev_incomplete` is or-ed into the error and
    nothing else changes; otherwise `check64_utf` -/
def u8Check64 (st : U8St) (bs : Bytes) : U8St :=
  if bs.all (· < 128) then { st with err := st.err || st.inc }
  else
    let l := u8Last3 st.p3 st.p2 st.p1 bs
    { err := st.err || u8Errs st.p3 st.p2 st.p1 bs, p3 := l.1, p2 := l.2.1, p1 := l.2.2,
      inc := u8Incomplete l.1 l.2.1 l.2.2 }

/-- a block of 128 or 64 bytes = its 64-byte units in order (`check128` tests the two halves separately) -/
def u8Blk (st : U8St) (bs : Bytes) : U8St :=
  if bs.length ≤ 64 then u8Check64 st bs
  else u8Check64 (u8Check64 st (bs.take 64)) (bs.drop 64)

/-- `validate_utf8_avx2`: rounds while `start < end - W` (strictly more than `W` bytes left), then `check_remain`:
    the rest copied into a zeroed 64-byte buffer, `check64`, `check_eof`.  `true` = no error. -/
def utf8VecRun (rd : Rd) (len : Nat) : List Nat → U8St → Nat → Option Bool
  | [], st, off =>
    match loadW rd (len - off) off with
    | none => none
    | some rest =>
      let st' := u8Check64 st (rest ++ List.replicate (64 - rest.length) 0)
      some (!(st'.err || st'.inc))
  | W :: Ws, st, off =>
    if _h : 0 < W ∧ off + W < len then
      match loadW rd W off with
      | none => none
      | some bs => utf8VecRun rd len (W :: Ws) (u8Blk st bs) (off + W)
    else utf8VecRun rd len Ws st off
termination_by Ws _ off => (Ws.length, len - off)
decreasing_by
  · apply Prod.Lex.right; omega
  · apply Prod.Lex.left; simp

def utf8Vec (Ws : List Nat) (rd : Rd) (len : Nat) : Option Bool :=
  if len = 0 then some true else utf8VecRun rd len Ws ⟨false, 0, 0, 0, false⟩ 0

/-- validate_utf8_fast.c: `if (validate_utf8_avx2(s) == 0) return 0;` (AVX2 build only) `return validate_utf8_errors(s)` -/
def utf8Fast (w : StrWidths) (rd : Rd) (len : Nat) : Option Bool :=
  if w.utf8.isEmpty then utf8Scalar rd len
  else
    match utf8Vec w.utf8 rd len with
    | none => none
    | some true => some true
    | some false => utf8Scalar rd len

/-- the vector validator never says "valid" for an ill-formed input.  NOT proved: the lookup tables of
    utf8.h:250-375 are transcribed above, run by the driver on every correspondence case and compared with
    `Str.validate`; this is the hypothesis under which the AVX2 build of validate_utf8_fast equals the SSE build. -/
def VecSound (Ws : List Nat) : Prop :=
  ∀ s : Bytes, utf8Vec Ws (ofList s) s.length = some true → validate s = true

/-- the vector verdict as a function of the content alone (one block) -/
def vecValid (s : Bytes) : Bool := !(u8Errs 0 0 0 s) && !(match u8Last3 0 0 0 s with | (a, b, c) => u8Incomplete a b c)

end SonicSpec.Mem
