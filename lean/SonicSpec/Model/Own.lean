/-
  Core H (buffers), part 1: one Go byte slice under construction and the restartable
  native loops that fill it.  Core Lean only.

  Transliterated from
    internal/rt/fastmem.go:95      GuardSlice2
    internal/rt/growslice.go:26    GrowSlice (panics when newCap < old.Len; contents of
                                   [old.Len, newCap) are NOT cleared)
    internal/encoder/alg/spec.go:65   Quote      (restart loop around native.Quote)
    internal/encoder/alg/spec.go:123  HtmlEscape (restart loop around native.HTMLEscape)
    internal/encoder/x86/assembler_regabi_amd64.go:398 check_size / :609 more_space /
                                   :669 encode_string (the JIT's copy of the Quote loop)
  The machine-code routines `native.Quote` / `native.HTMLEscape` are PARAMETERS (`Native`),
  constrained only by the contract `NativeOK` (native/quote.c, native/html_escape.c were read to
  write it).  `runtime.growslice`'s capacity rounding and the contents of fresh memory are
  parameters too (`Env`).
-/
import SonicSpec.Model.Hex
import SonicSpec.Model.Str
namespace SonicSpec.Own
open SonicSpec

/-- ways a run of the model can leave the envelope of defined behaviour -/
inductive Fault
  | overrun     -- a store beyond the capacity of the slice (memory outside the buffer)
  | badLen      -- the slice length was moved beyond the capacity
  | growPanic   -- rt.GrowSlice: "growslice's newCap is smaller than old length"
  | fuel        -- the loop did not finish (cannot happen under the contract)
  deriving DecidableEq, Repr

/-- `runtime.growslice` rounding and the contents of memory that nobody cleared -/
structure Env where
  /-- (old capacity, requested capacity) ↦ capacity obtained -/
  grow : Nat → Nat → Nat
  /-- generation of the backing array ↦ index ↦ byte found there -/
  garb : Nat → Nat → UInt8

structure Env.OK (e : Env) : Prop where
  grow_ge : ∀ c n, n ≤ e.grow c n

/-- a Go `[]byte` value: backing array (`mem`, its length is the capacity), length, and a
    generation number that changes whenever the slice moves to a new backing array -/
structure SBuf where
  mem : Bytes
  len : Nat
  gen : Nat := 0

namespace SBuf

def cap (b : SBuf) : Nat := b.mem.length
def bytes (b : SBuf) : Bytes := b.mem.take b.len
def spare (b : SBuf) : Nat := b.mem.length - b.len
def WF (b : SBuf) : Prop := b.len ≤ b.mem.length

/-- a caller's slice with contents `prior` and a spare capacity currently holding `dirt` -/
def ofPrior (prior dirt : Bytes) : SBuf := { mem := prior ++ dirt, len := prior.length, gen := 0 }

def fill (env : Env) (gen k : Nat) : Bytes := (List.range k).map (env.garb gen)

/-- machine code stores `w` at `[len, len+|w|)`; the length does not move -/
def store (b : SBuf) (w : Bytes) : Except Fault SBuf :=
  if b.len + w.length ≤ b.mem.length then
    .ok { b with mem := b.mem.take b.len ++ (w ++ b.mem.drop (b.len + w.length)) }
  else .error .overrun

/-- `b.Len += n` -/
def advance (b : SBuf) (n : Nat) : Except Fault SBuf :=
  if b.len + n ≤ b.mem.length then .ok { b with len := b.len + n } else .error .badLen

/-- a new backing array of exactly `c` bytes holding the old contents (make + copy) -/
def realloc (env : Env) (b : SBuf) (c : Nat) : SBuf :=
  { mem := b.bytes ++ fill env (b.gen + 1) (c - b.len), len := b.len, gen := b.gen + 1 }

/-- rt.GrowSlice(typeByte, b, newCap) (growslice.go:26) -/
def growTo (env : Env) (b : SBuf) (newCap : Nat) : Except Fault SBuf :=
  if newCap < b.len then .error .growPanic
  else .ok (b.realloc env (env.grow b.cap newCap))

/-- the JIT's `check_size n` (assembler_regabi_amd64.go:406: LEAQ n(RL),AX; CMPQ AX,RC; JBE;
    else `_more_space` = rt.GrowSlice(len+n)); Go's `append` reserves the same way -/
def ensure (env : Env) (b : SBuf) (n : Nat) : Except Fault SBuf :=
  if b.len + n ≤ b.mem.length then .ok b else b.growTo env (b.len + n)

/-- append a chunk: reserve, store, move the length (Go `append(buf, c...)`, JIT `add_text`) -/
def emit (env : Env) (b : SBuf) (c : Bytes) : Except Fault SBuf :=
  match b.ensure env c.length with
  | .error e => .error e
  | .ok b1 =>
    match b1.store c with
    | .error e => .error e
    | .ok b2 => b2.advance c.length

/-- rt.GuardSlice2(buf, n) (fastmem.go:95) -/
def guard (env : Env) (b : SBuf) (n : Nat) : SBuf :=
  if b.mem.length - b.len < n then
    let c := b.mem.length / 2 + n + b.len
    b.realloc env (if c < 32 then 32 else c)
  else b

end SBuf

/-- what one call of a native routine did: `done` ⇔ return value ≥ 0; otherwise the return value
    is `^consumed`.  `written` is everything it stored at `dp[0..]`, `emitted` the count it left
    in `*dn` (stores beyond `emitted` are scratch) -/
structure NativeRet where
  done : Bool
  consumed : Nat
  written : Bytes
  emitted : Nat

/-- (remaining input, `dn` = spare capacity offered) ↦ behaviour -/
abbrev Native := Bytes → Nat → NativeRet

/-- The contract of `native.Quote` / `native.HTMLEscape` relative to the image function `spec`:
    never stores beyond `dn` bytes, reports a prefix of what it stored, that prefix is exactly the
    image of the consumed input prefix, the cut never falls inside an escape unit, a non-negative
    return means everything was consumed, and when it consumes nothing the offered space was
    smaller than the largest image of one unit (`maxImg`). -/
structure NativeOK (spec : Bytes → Bytes) (maxImg : Nat) (nat : Native) : Prop where
  fits : ∀ s dn, (nat s dn).written.length ≤ dn
  emitted_le : ∀ s dn, (nat s dn).emitted ≤ (nat s dn).written.length
  image : ∀ s dn, (nat s dn).written.take (nat s dn).emitted = spec (s.take (nat s dn).consumed)
  nosplit : ∀ s dn, spec (s.take (nat s dn).consumed) ++ spec (s.drop (nat s dn).consumed) = spec s
  done_all : ∀ s dn, (nat s dn).done = true → s.length ≤ (nat s dn).consumed
  progress : ∀ s dn, s ≠ [] → (nat s dn).done = false → (nat s dn).consumed = 0 → dn < maxImg

/-- The loop shared by alg.Quote (spec.go:85-110), alg.HtmlEscape (spec.go:137-152) and the JIT's
    `_str_loop_{n}`: offer the whole spare capacity, add `dn` to the length, stop on a non-negative
    return, otherwise double the capacity and resume after the consumed input. -/
def restartLoop (env : Env) (nat : Native) : Nat → SBuf → Bytes → Except Fault SBuf
  | 0, _, _ => .error .fuel
  | fuel + 1, b, rest =>
    if rest.isEmpty then .ok b else
    let r := nat rest b.spare
    match b.store r.written with
    | .error e => .error e
    | .ok b1 =>
      match b1.advance r.emitted with
      | .error e => .error e
      | .ok b2 =>
        if r.done then .ok b2
        else
          match b2.growTo env (b2.cap * 2) with
          | .error e => .error e
          | .ok b3 => restartLoop env nat fuel b3 (rest.drop r.consumed)

def loopFuel (s : Bytes) : Nat := 7 * s.length + 7

/-- alg.Quote(buf, val, false) (spec.go:65) -/
def quoteLoop (env : Env) (nat : Native) (b : SBuf) (s : Bytes) : Except Fault SBuf :=
  if s.isEmpty then b.emit env [34, 34]
  else
    match b.emit env [34] with
    | .error e => .error e
    | .ok b1 =>
      match restartLoop env nat (loopFuel s) (b1.guard env (s.length + 1)) s with
      | .error e => .error e
      | .ok b3 => b3.emit env [34]

/-- the JIT's encode_string(false) (assembler_regabi_amd64.go:669): SIZE len+2, `"`, loop, SIZE 1, `"` -/
def jitString (env : Env) (nat : Native) (b : SBuf) (s : Bytes) : Except Fault SBuf :=
  if s.isEmpty then b.emit env [34, 34]
  else
    match b.ensure env (s.length + 2) with
    | .error e => .error e
    | .ok b0 =>
      match b0.emit env [34] with
      | .error e => .error e
      | .ok b1 =>
        match restartLoop env nat (loopFuel s) b1 s with
        | .error e => .error e
        | .ok b3 => b3.emit env [34]

/-- `types.BufPaddingSize` -/
def bufPadding : Nat := 64

/-- alg.HtmlEscape(dst, src) (spec.go:123; the grown capacity counts the destination's length
    since the fix 1774a90 - before it, a long destination made rt.GrowSlice panic) -/
def htmlEscapeLoop (env : Env) (nat : Native) (b : SBuf) (src : Bytes) : Except Fault SBuf :=
  match (if b.mem.length - b.len < src.length + bufPadding
         then b.growTo env (b.len + src.length * 3 / 2 + bufPadding) else .ok b) with
  | .error e => .error e
  | .ok b1 => restartLoop env nat (loopFuel src) b1 src

/-! ### images -/

def htmlByte (c : UInt8) : Bytes :=
  if c == 60 then [92, 117, 48, 48, 51, 99]        -- <  <
  else if c == 62 then [92, 117, 48, 48, 51, 101]  -- >  >
  else if c == 38 then [92, 117, 48, 48, 50, 54]   -- &  &
  else [c]

/-- encoder.HTMLEscape on the whole text: `< > &` and the UTF-8 forms of U+2028 / U+2029 -/
def htmlEscape : Bytes → Bytes
  | 226 :: 128 :: 168 :: r => [92, 117, 50, 48, 50, 56] ++ htmlEscape r   -- \u2028
  | 226 :: 128 :: 169 :: r => [92, 117, 50, 48, 50, 57] ++ htmlEscape r   -- \u2029
  | c :: r => htmlByte c ++ htmlEscape r
  | [] => []

/-! ### reference natives (any routine meeting the contract gives the same bytes - `Props/C06`;
    the driver runs two very different ones and compares) -/

/-- (consumed, emitted image, done) of a reference `native.Quote`: whole bytes, as long as the
    image fits into `dn` and the budget of escape units lasts -/
def quoteGreedy : Bytes → Nat → Nat → Nat × Bytes × Bool
  | [], _, _ => (0, [], true)
  | _ :: _, _, 0 => (0, [], false)
  | c :: r, dn, k + 1 =>
    if (Str.quoteByte c).length ≤ dn then
      let t := quoteGreedy r (dn - (Str.quoteByte c).length) k
      (t.1 + 1, Str.quoteByte c ++ t.2.1, t.2.2)
    else (0, [], false)

def esc2028 : Bytes := [92, 117, 50, 48, 50, 56]
def esc2029 : Bytes := [92, 117, 50, 48, 50, 57]

/-- reference `native.HTMLEscape`: the three bytes of U+2028 / U+2029 are one unit -/
def htmlGreedy : Bytes → Nat → Nat → Nat × Bytes × Bool
  | [], _, _ => (0, [], true)
  | _ :: _, _, 0 => (0, [], false)
  | 226 :: 128 :: 168 :: r, dn, k + 1 =>
    if 6 ≤ dn then
      let t := htmlGreedy r (dn - 6) k
      (t.1 + 3, esc2028 ++ t.2.1, t.2.2)
    else (0, [], false)
  | 226 :: 128 :: 169 :: r, dn, k + 1 =>
    if 6 ≤ dn then
      let t := htmlGreedy r (dn - 6) k
      (t.1 + 3, esc2029 ++ t.2.1, t.2.2)
    else (0, [], false)
  | c :: r, dn, k + 1 =>
    if (htmlByte c).length ≤ dn then
      let t := htmlGreedy r (dn - (htmlByte c).length) k
      (t.1 + 1, htmlByte c ++ t.2.1, t.2.2)
    else (0, [], false)

/-- wrap a greedy routine as a `Native`; `z = some x`: it also scribbles `x` over the rest of the
    space it was offered (allowed: scratch beyond what it reports) -/
def mkNative (g : Bytes → Nat → Nat → Nat × Bytes × Bool) (units : Nat) (z : Option UInt8) : Native :=
  fun s dn =>
    let t := g s dn units
    let scratch := match z with
      | some x => List.replicate (dn - t.2.1.length) x
      | none => []
    { done := t.2.2, consumed := t.1, written := t.2.1 ++ scratch, emitted := t.2.1.length }

/-! ### a value, the chunks the encoder emits for it, and the text they make -/

mutual
inductive Val
  | null
  | bool (b : Bool)
  | int (i : Int)
  | str (s : Bytes)
  | arr (xs : Vals)
  | map1 (k : Bytes) (v : Val)
  /-- `struct{A string "a"; B []string "b"; C int64 "c"}` -/
  | rec3 (a : Bytes) (b : List Bytes) (c : Int)
  /-- a value the encoder rejects after having emitted what precedes it -/
  | bad
  /-- a value given by its compact text (structs of fixed-width integers, written by the driver);
      not laid out by `indentV` -/
  | lit (text : Bytes)
inductive Vals
  | nil
  | cons (v : Val) (vs : Vals)
end

def Vals.ofList : List Val → Vals
  | [] => .nil
  | v :: r => .cons v (Vals.ofList r)

inductive Tok
  | lit (c : Bytes)
  | str (s : Bytes)
  | bad

def decNat (n : Nat) : Bytes := (Nat.toDigits 10 n).map (fun c => UInt8.ofNat c.toNat)

/-- decimal text of an integer -/
def decInt : Int → Bytes
  | .ofNat n => decNat n
  | .negSucc n => 45 :: decNat (n + 1)

def litNull : Bytes := [110, 117, 108, 108]
def litTrue : Bytes := [116, 114, 117, 101]
def litFalse : Bytes := [102, 97, 108, 115, 101]

def strsToks : List Bytes → List Tok
  | [] => []
  | [s] => [.str s]
  | s :: r => .str s :: .lit [44] :: strsToks r

mutual
def compile : Val → List Tok
  | .null => [.lit litNull]
  | .bool b => [.lit (if b then litTrue else litFalse)]
  | .int i => [.lit (decInt i)]
  | .str s => [.str s]
  | .arr .nil => [.lit [91, 93]]
  | .arr (.cons x xs) => .lit [91] :: (compile x ++ compileTail xs)
  | .map1 k v => .lit [123] :: .str k :: .lit [58] :: (compile v ++ [.lit [125]])
  | .rec3 a b c =>
    -- {"a":   ,"b":[   ],"c":   }
    [.lit [123, 34, 97, 34, 58], .str a, .lit [44, 34, 98, 34, 58, 91]] ++ strsToks b ++
    [.lit [93, 44, 34, 99, 34, 58], .lit (decInt c), .lit [125]]
  | .bad => [.bad]
  | .lit t => [.lit t]
def compileTail : Vals → List Tok
  | .nil => [.lit [93]]
  | .cons x xs => .lit [44] :: (compile x ++ compileTail xs)
end

/-- text of the chunks up to the first rejected value -/
def renderToks : List Tok → Bytes
  | [] => []
  | .lit c :: r => c ++ renderToks r
  | .str s :: r => Str.quote s ++ renderToks r
  | .bad :: _ => []

def hasBad : List Tok → Bool
  | [] => false
  | .bad :: _ => true
  | _ :: r => hasBad r

/-- compact JSON text of a value (`none`: the encoder returns an error) -/
def render (v : Val) : Option Bytes :=
  if hasBad (compile v) then none else some (renderToks (compile v))

/-- run the chunks of a value through a buffer; the flag says "stopped at a rejected value" -/
def encodeToks (env : Env) (strEnc : SBuf → Bytes → Except Fault SBuf) :
    List Tok → SBuf → Except Fault (SBuf × Bool)
  | [], b => .ok (b, false)
  | .lit c :: r, b =>
    match b.emit env c with
    | .error e => .error e
    | .ok b1 => encodeToks env strEnc r b1
  | .str s :: r, b =>
    match strEnc b s with
    | .error e => .error e
    | .ok b1 => encodeToks env strEnc r b1
  | .bad :: _, b => .ok (b, true)

/-- encoder options the model knows -/
structure Opts where
  escapeHTML : Bool := false

/-- which string routine the encoder body uses: the JIT's inline loop or alg.Quote (VM, ast) -/
inductive StrImpl | jit | alg
  deriving DecidableEq

structure Natives where
  quote : Native
  html : Native

def strEnc (env : Env) (n : Natives) : StrImpl → SBuf → Bytes → Except Fault SBuf
  | .jit => jitString env n.quote
  | .alg => quoteLoop env n.quote

/-- encoder.EncodeInto(&buf, v, opts) (encoder.go:197): the body appends to the caller's slice; the
    post-pass `encodeFinish` (`HTMLEscape(nil, tail)`, a scratch slice) is applied to the bytes this
    call appended only, and the result is appended behind the caller's old length -/
def encodeInto (env : Env) (n : Natives) (impl : StrImpl) (o : Opts) (b : SBuf) (v : Val) :
    Except Fault (SBuf × Bool) :=
  match encodeToks env (strEnc env n impl) (compile v) b with
  | .error e => .error e
  | .ok (b1, true) => .ok (b1, true)
  | .ok (b1, false) =>
    if o.escapeHTML then
      match htmlEscapeLoop env n.html { mem := [], len := 0, gen := 0 } (b1.bytes.drop b.len) with
      | .error e => .error e
      | .ok t =>
        match ({ b1 with len := b.len } : SBuf).emit env t.bytes with
        | .error e => .error e
        | .ok b2 => .ok (b2, false)
    else .ok (b1, false)

/-! ### encoding/json.Indent of the compact text, written on the value -/

def nl (pre ind : Bytes) (depth : Nat) : Bytes :=
  10 :: (pre ++ (List.replicate depth ind).flatten)

def indentStrs (q : Bytes → Bytes) (pre ind : Bytes) (d : Nat) : List Bytes → Bytes
  | [] => []
  | [s] => q s
  | s :: r => q s ++ [44] ++ nl pre ind d ++ indentStrs q pre ind d r

-- `q` renders one string literal (plain quote, or quote followed by the HTML escape)
mutual
def indentV (q : Bytes → Bytes) (pre ind : Bytes) (d : Nat) : Val → Bytes
  | .arr .nil => [91, 93]
  | .arr (.cons x xs) => [91] ++ nl pre ind (d + 1) ++ indentV q pre ind (d + 1) x ++ indentTail q pre ind d xs
  | .map1 k v => [123] ++ nl pre ind (d + 1) ++ q k ++ [58, 32] ++ indentV q pre ind (d + 1) v ++
      nl pre ind d ++ [125]
  | .rec3 a b c =>
    -- "a":_   "b":_   "c":_
    [123] ++ nl pre ind (d + 1) ++ [34, 97, 34, 58, 32] ++ q a ++ [44] ++
    nl pre ind (d + 1) ++ [34, 98, 34, 58, 32] ++
      (if b.isEmpty then [91, 93]
       else [91] ++ nl pre ind (d + 2) ++ indentStrs q pre ind (d + 2) b ++ nl pre ind (d + 1) ++ [93]) ++ [44] ++
    nl pre ind (d + 1) ++ [34, 99, 34, 58, 32] ++ decInt c ++ nl pre ind d ++ [125]
  | .null => litNull
  | .bool b => if b then litTrue else litFalse
  | .int i => decInt i
  | .str s => q s
  | .bad => []
  | .lit t => t
def indentTail (q : Bytes → Bytes) (pre ind : Bytes) (d : Nat) : Vals → Bytes
  | .nil => nl pre ind d ++ [93]
  | .cons x xs => [44] ++ nl pre ind (d + 1) ++ indentV q pre ind (d + 1) x ++ indentTail q pre ind d xs
end

end SonicSpec.Own
