/-
  Core D, deep part (3): `run`, the meaning of a decoder program, after the code the assembler emits per
  instruction (/repo/internal/decoder/jitdec/assembler_regabi_amd64.go `_asm_OP_*`, cited below) over an
  abstract machine:

    * IC / the input: `inp` = the bytes from the cursor on;  `ic` = `_VAR_ic`, the position saved by
      `_OP_dismatch_err` from which `_OP_go_skip` skips;
    * VP, the destination cursor: a PATH from the root destination value (`child i` = field / element / map
      entry `i`, `deref` = the target of a pointer); byte offsets become selectors (`index sel _`);
    * the value stack (`_Stack.sb`, at most `_MaxStack` slots): saved paths.  The length word of a slice under
      construction lives in the frame `_OP_save` pushes right after `_OP_slice_init` (`Frame.n`): the elements
      beyond it stay readable as the "current content" of later elements, as in memory, and `_OP_drop` cuts the
      slice to its length.  There is no hidden capacity behind the length of a finished slice (as in `Bind`);
    * `_VAR_et` (the saved type error; execution continues): `et`, combined with `Bind.merge`;  `_VAR_sr`: `sr`.
    * `_OP_recurse` re-enters through `decodeTypedPointer` (primitives.go:28): the program of the type is
      `compile`d and run on the SAME stack with a fresh `et`; a `MismatchTypeError` of the callee is saved by
      the caller, which goes on behind the value (assembler :1183-1189); any other error ends the run.

  Leaves.  The native routines (`vstring`, `vsigned`, `vunsigned`, `vnumber`, `skip_one`, `skip_array`, `unquote`,
  `lspace`) and the field lookup are those of the single-pass specification (`Stream.skipVal`, `Json.scanNumber` +
  `Bind.storeNumber`, `Json.scanString` + `Bind.unquote`, `Bind.lookupField`); their agreement with the real
  routines is the subject of the behavioural correspondence of C01/C02/C19/C20 and of the findings listed there
  (`skip_array` accepting `[1,]`, case folding by ToLower).  What the machine does NOT take from the specification:
  the order of tests, the control flow, which errors end the run at once (range errors of the narrow integer
  kinds, unknown fields under DisallowUnknownFields, `false` misspelt) and which are saved, pointer allocation
  before the kind test, decoding a map element into the entry already stored.

  Out of fuel is `none`; results are `ok state`, or an error: one of the specification's (`dec e`), `depth`
  (`_stack_error`: `_OP_save` on a full stack), or `stuck` (the destination does not hold what the instruction
  writes, or the instruction is outside the machine model: callbacks other than the library's `(*MV).UnmarshalJSON` and the UnmarshalText of
  map keys, `dyn`, base64).
-/
import SonicSpec.Model.DirCompile
import SonicSpec.Model.BindStream
namespace SonicSpec.Dir
open SonicSpec SonicSpec.Go SonicSpec.Json SonicSpec.Bind SonicSpec.Stream

inductive XErr where
  | dec (e : DErr)
  | depth
  | stuck
deriving Repr, DecidableEq, Inhabited

inductive Sel where
  | child (i : Nat)
  | deref
deriving Repr, DecidableEq, Inhabited

abbrev Path := List Sel

/-- the value at a path -/
def getAt : GoVal → Path → Option GoVal
  | v, [] => some v
  | .st vs, .child i :: p => (match vs[i]? with
    | some x => getAt x p
    | none => none)
  | .arr xs, .child i :: p => (match xs[i]? with
    | some x => getAt x p
    | none => none)
  | .sl xs, .child i :: p => (match xs[i]? with
    | some x => getAt x p
    | none => none)
  | .map kvs, .child i :: p => (match kvs[i]? with
    | some kv => getAt kv.2 p
    | none => none)
  | .ptr v, .deref :: p => getAt v p
  | _, _ => none

/-- store at a path (nothing happens when the path does not exist) -/
def setAt : GoVal → Path → GoVal → GoVal
  | _, [], w => w
  | .st vs, .child i :: p, w => (match vs[i]? with
    | some x => .st (vs.set i (setAt x p w))
    | none => .st vs)
  | .arr xs, .child i :: p, w => (match xs[i]? with
    | some x => .arr (xs.set i (setAt x p w))
    | none => .arr xs)
  | .sl xs, .child i :: p, w => (match xs[i]? with
    | some x => .sl (xs.set i (setAt x p w))
    | none => .sl xs)
  | .map kvs, .child i :: p, w => (match kvs[i]? with
    | some kv => .map (kvs.set i (kv.1, setAt kv.2 p w))
    | none => .map kvs)
  | .ptr v, .deref :: p, w => .ptr (setAt v p w)
  | v, _, _ => v

structure Frame where
  vp : Path
  n : Nat
deriving Repr, Inhabited

structure St where
  inp : Bytes
  ic : Bytes
  vp : Path
  root : GoVal
  stack : List Frame
  et : Option DErr
  sr : Option Nat
deriving Repr, Inhabited

inductive StepRes where
  | next (pc : Nat) (s : St)
  | err (e : XErr)
  | call (T : GoType)

/-- the fuel the skipper gets: enough for any input of this length (Proofs/DirSkip.lean `skipVal_fuel`) -/
def skipFuel (s : Bytes) : Nat := 2 * s.length + 3

/-- `_skip_one` (assembler :625): skip one value from `from`, go on at `tgt` -/
def skipTo (o : DecOpts) (s : St) (src : Bytes) (tgt : Nat) : StepRes :=
  match skipVal o.validateString (skipFuel src) src with
  | some r => .next tgt { s with inp := r }
  | none => .err (.dec .syntax)

/-- the `(*T).UnmarshalJSON` methods of the library (go/harness/types.go), on the text `skip_one` delimits.  MV: `json.Unmarshal`
    into `struct{ Mv int }`, then `m.V = x.Mv`; an MV value is the struct `(st (i V))` here. -/
def libUnmarshalJ (n : String) (raw : Bytes) : Option (Except DErr GoVal) :=
  match n with
  | "MV" => some (match Bind.decode {} (.st [("Mv", none, .int 64)]) raw with
    | .ok (.st [x]) => .ok (.st [x])
    | .ok _ => .error .other
    | .error e => .error e)
  | _ => none

/-- store at VP -/
def St.put (s : St) (v : GoVal) : St := { s with root := setAt s.root s.vp v }

/-- a range error ends the run at once (`_range_error`, assembler :518) when the literal is an integer of 64 bits that
    does not fit the narrower kind; everything else the native parser refuses is a saved mismatch -/
def hardRange (T : GoType) (l : Bytes) : Bool :=
  match T with
  | .int w => (bindInt 64 l).isSome && (bindInt w l).isNone
  | .uint w => (bindUint 64 l).isSome && (bindUint w l).isNone
  | .f32 | .f64 => true
  | _ => false

/-- `_OP_i8` .. `_OP_f64` (assembler :1417-1495): `parse_signed` / `parse_unsigned` / `parse_number`, `check_err` (a value
    the parser refuses is a saved mismatch and skipped), the range test, the store -/
def numOp (o : DecOpts) (T : GoType) (pc : Nat) (s : St) : StepRes :=
  match tok s.inp with
  | .other =>
    match scanNumber s.inp with
    | none => .err (.dec .syntax)
    | some (l, r) =>
      match getAt s.root s.vp with
      | none => .err .stuck
      | some c =>
        let (v, e) := storeNumber o false l T c
        match e with
        | none => .next (pc + 1) { (s.put v) with inp := r }
        | some err => if hardRange T l then .err (.dec err) else .next (pc + 1) { s with inp := r, et := merge s.et (some err) }
  | _ => skipTo o { s with et := merge s.et (some .mismatch) } s.inp (pc + 1)

def isNullQuoteLit : Bytes → Option Bytes
  | 110 :: 117 :: 108 :: 108 :: 34 :: r => some r
  | _ => none

/-- `_skip_key_value` (assembler :635) from the opening quote of a key: the key, `:`, the value; then on at `tgt` -/
def skipKV (o : DecOpts) (s : St) (src : Bytes) (tgt : Nat) : StepRes :=
  match skipVal o.validateString (skipFuel src) src with
  | none => .err (.dec .syntax)
  | some r1 =>
    match skipWs r1 with
    | 58 :: r2 =>
      match skipVal o.validateString (skipFuel (skipWs r2)) (skipWs r2) with
      | some r3 => .next tgt { s with inp := r3 }
      | none => .err (.dec .syntax)
    | _ => .err (.dec .syntax)

/-- Go's `==` on the keys the machine makes: `Bind.keyEq` on strings and integers; floats by value (the two zeros are one key);
    a library struct by its content; a pointer key is a fresh allocation, equal to no other -/
def keyEqX : GoVal → GoVal → Bool
  | .f64 a, .f64 b => a == b || ((a == 0 || a == 0x8000000000000000) && (b == 0 || b == 0x8000000000000000))
  | .f32 a, .f32 b => a == b || ((a == 0 || a == 0x80000000) && (b == 0 || b == 0x80000000))
  | .lib a, .lib b => a == b
  | a, b => keyEq a b

/-- the entry of the map at VP for key `k` (mapassign): the one found, or a new zero element; VP moves to it -/
def mapEntry (s : St) (k : GoVal) (E : GoType) (r : Bytes) (pc : Nat) : StepRes :=
  match getAt s.root s.vp with
  | some (.map kvs) =>
    match kvs.findIdx? fun p => keyEqX p.1 k with
    | some i => .next (pc + 1) { s with inp := r, vp := s.vp ++ [.child i] }
    | none => .next (pc + 1) { (s.put (.map (kvs ++ [(k, zeroOf E)]))) with inp := r, vp := s.vp ++ [.child kvs.length] }
  | _ => .err .stuck

/-- the key of an integer-keyed map from its literal: `none` = not an integer of 64 bits, `some none` = outside the kind -/
def intKeyOf (signed : Bool) (w : Nat) (l : Bytes) : Option (Option GoVal) :=
  if signed then (bindInt 64 l).map fun v => if inRangeInt w v then some (GoVal.int v) else none
  else (bindUint 64 l).map fun v => if inRangeUint w v then some (GoVal.uint v) else none

/-- `_OP_map_key_i8 .. u64` (assembler :1579-1665): the key is read as a NUMBER LITERAL in place behind the opening quote
    (`vsigned` / `vunsigned`; no escapes, no `+`, no leading zeros), the closing quote is matched after it.  What the native
    parser refuses (not an integer, more than 64 bits) is a saved type error and the whole member is skipped
    (`check_err` with the target `tgt`); a value outside the narrower kind ends the run (`_range_error`). -/
def intKeyOp (o : DecOpts) (signed : Bool) (w : Nat) (E : GoType) (tgt pc : Nat) (s : St) : StepRes :=
  match scanNumber s.inp with
  | none => skipKV o { s with et := merge s.et (some .mismatch) } (34 :: s.inp) tgt
  | some (l, r) =>
    match intKeyOf signed w l with
    | none => skipKV o { s with et := merge s.et (some .mismatch) } (34 :: s.inp) tgt
    | some none => .err (.dec .mismatch)
    | some (some k) =>
      match r with
      | 34 :: r' => mapEntry s k E r' pc
      | _ => .err (.dec .syntax)

/-- `_OP_map_key_f32 / f64` (assembler :1653-1665): the key is read as a number literal in place (`vnumber`), as the float
    opcodes read a value; what the native parser refuses is a saved type error and the member is skipped; a float32 out of
    range ends the run (`range_single`) -/
def floatKeyOp (o : DecOpts) (K E : GoType) (tgt pc : Nat) (s : St) : StepRes :=
  match scanNumber s.inp with
  | none => skipKV o { s with et := merge s.et (some .mismatch) } (34 :: s.inp) tgt
  | some (l, r) =>
    match storeNumber o false l K (zeroOf K) with
    | (_, some e) => .err (.dec e)
    | (k, none) =>
      match r with
      | 34 :: r' => mapEntry s k E r' pc
      | _ => .err (.dec .syntax)

/-- the `UnmarshalText` methods of the library (go/harness/types.go, ops_dir_hook.go) on the unquoted key text; a library struct
    value is carried as its `%+v` text.  TV: `tv` + strconv.Atoi;  DirVT: a value receiver, nothing is stored -/
def libUnmarshalT (n : String) (text : Bytes) : Option (Except DErr GoVal) :=
  match n with
  | "TV" =>
    some (match text with
      | 116 :: 118 :: d =>
        (match bindInt 64 d with
         | some v => .ok (.lib (ascii ("{V:" ++ toString v ++ "}")))
         | none => .error .other)
      | _ => .error .other)
  | "DirVT" => some (.ok (.lib (ascii "{V:0}")))
  | _ => none

/-- `_OP_map_key_utext / utext_p` (assembler :1680-1690): the key string is unquoted and handed to the key type's UnmarshalText
    on a freshly allocated key; an error of the method ends the run.  `ptrKey`: the key type is the pointer itself -/
def textKeyOp (n : String) (ptrKey : Bool) (E : GoType) (pc : Nat) (s : St) : StepRes :=
  match scanString s.inp with
  | none => .err (.dec .syntax)
  | some (k, r) =>
    match unquote k with
    | none => .err (.dec .syntax)
    | some text =>
      match libUnmarshalT n text with
      | none => .err .stuck
      | some (.error e) => .err (.dec e)
      | some (.ok v) => mapEntry s (if ptrKey then .ptr v else v) E r pc

/-- position of a field in the resolved list (= its ID in the `FieldMap`) -/
def fieldPos (fs : List Field) (f : Field) : Option Nat := fs.findIdx? fun g => g.idx == f.idx

/-- one instruction; `pc` is the index of `ins`; `lim` = the size of the value stack (`none`: unbounded) -/
def step (o : DecOpts) (lim : Option Nat) (ins : Instr) (pc : Nat) (s : St) : StepRes :=
  match ins with
  | .lspace =>                                                              -- :1890 (end of input is `_eof_error`)
    match skipWs s.inp with
    | [] => .err (.dec .syntax)
    | r => .next (pc + 1) { s with inp := r }
  | .isNull t =>                                                            -- :1547
    match isNullLit s.inp with
    | some r => .next t { s with inp := r }
    | none => .next (pc + 1) s
  | .isNullQuote t =>                                                       -- :1557
    match isNullQuoteLit s.inp with
    | some r => .next t { s with inp := r }
    | none => .next (pc + 1) s
  | .checkChar t c =>                                                       -- :1937
    match s.inp with
    | [] => .err (.dec .syntax)
    | b :: r => if b == c then .next t { s with inp := r } else .next (pc + 1) s
  | .checkChar0 t c =>                                                      -- :1945
    match s.inp with
    | [] => .err (.dec .syntax)
    | b :: _ => if b == c then .next t s else .next (pc + 1) s
  | .matchChar c =>                                                         -- :1930
    match s.inp with
    | [] => .err (.dec .syntax)
    | b :: r => if b == c then .next (pc + 1) { s with inp := r } else .err (.dec .syntax)
  | .add n => .next (pc + 1) { s with inp := s.inp.drop n }                 -- :1951
  | .dismatchErr _ => .next (pc + 1) { s with ic := s.inp, et := merge s.et (some .mismatch) }   -- :592
  | .goSkip t => skipTo o s s.ic t                                          -- :598
  | .goto t => .next t s                                                    -- :1992
  | .switch ts =>                                                           -- :1996
    match s.sr with
    | some i => (match ts[i]? with
      | some t => .next t s
      | none => .next (pc + 1) s)
    | none => .next (pc + 1) s
  | .load =>                                                                -- :1955
    match s.stack with
    | f :: _ => .next (pc + 1) { s with vp := f.vp }
    | [] => .err .stuck
  | .save enter =>                                                          -- :1960 (`CMPQ CX, _MaxStackBytes; JAE _stack_error`)
    if (match lim with | some l => decide (s.stack.length ≥ l) | none => false) then .err .depth
    else .next (pc + 1) { s with stack := { vp := s.vp, n := 0 } :: s.stack, vp := if enter then s.vp ++ [.child 0] else s.vp }
  | .drop =>                                                                -- :1969
    match s.stack with
    | f :: rest =>
      let root' := match getAt s.root f.vp with
        | some (.sl xs) => setAt s.root f.vp (.sl (xs.take f.n))
        | _ => s.root
      .next (pc + 1) { s with stack := rest, vp := f.vp, root := root' }
    | [] => .err .stuck
  | .drop2 =>                                                               -- :1978
    match s.stack with
    | _ :: f :: rest => .next (pc + 1) { s with stack := rest, vp := f.vp }
    | _ => .err .stuck
  | .index sel _ => .next (pc + 1) { s with vp := s.vp ++ sel.map .child }  -- :1542
  | .deref T =>                                                             -- :1538 vfollow: allocate when nil
    match getAt s.root s.vp with
    | some (.ptr _) => .next (pc + 1) { s with vp := s.vp ++ [.deref] }
    | some .nil => .next (pc + 1) { (s.put (.ptr (zeroOf T))) with vp := s.vp ++ [.deref] }
    | _ => .err .stuck
  | .nil1 | .nil2 | .nil3 => .next (pc + 1) (s.put .nil)                    -- :1508-1523
  | .bool =>                                                                -- :1335
    if s.inp.length < 4 then .err (.dec .syntax)
    else match boolLit s.inp with
      | some (b, r) => .next (pc + 1) { (s.put (.bool b)) with inp := r }
      | none =>
        match s.inp with
        | 102 :: _ => .err (.dec .syntax)                                   -- `f` not followed by `alse`: `_im_error`
        | _ => skipTo o { s with et := merge s.et (some .mismatch) } s.inp (pc + 1)
  | .i8 => numOp o (.int 8) pc s
  | .i16 => numOp o (.int 16) pc s
  | .i32 => numOp o (.int 32) pc s
  | .i64 => numOp o (.int 64) pc s
  | .u8 => numOp o (.uint 8) pc s
  | .u16 => numOp o (.uint 16) pc s
  | .u32 => numOp o (.uint 32) pc s
  | .u64 => numOp o (.uint 64) pc s
  | .f32 => numOp o .f32 pc s
  | .f64 => numOp o .f64 pc s
  | .str =>                                                                 -- :1302 parse_string + unquote_once (the opening quote is behind IC)
    match scanString s.inp with
    | none => .err (.dec .syntax)
    | some (b, t) =>
      match unquote b with
      | none => .err (.dec .syntax)
      | some u => .next (pc + 1) { (s.put (.str u)) with inp := t }
  | .num =>                                                                 -- :1371 json.Number: a number, or a string holding one
    match getAt s.root s.vp with
    | none => .err .stuck
    | some c =>
      match tok s.inp with
      | .str r =>
        match scanString r with
        | none => .err (.dec .syntax)
        | some (b, t) =>
          match unquote b with
          | none => .err (.dec .syntax)
          | some u =>
            let (v, e) := storeString u (34 :: (b ++ [34])) .num c
            .next (pc + 1) { (s.put v) with inp := t, et := merge s.et e }
      | .other =>
        match scanNumber s.inp with
        | some (l, r) => .next (pc + 1) { (s.put (.num l)) with inp := r }
        | none => .err (.dec .syntax)
      | _ => skipTo o { s with et := merge s.et (some .mismatch) } s.inp (pc + 1)
  | .structField fs =>                                                      -- :1793
    match scanString s.inp with
    | none => .err (.dec .syntax)
    | some (k, r) =>
      match unquote k with
      | none => .err (.dec .syntax)
      | some key =>
        match lookupField fs o.caseSensitive key with
        | .found f => .next (pc + 1) { s with inp := r, sr := fieldPos fs f }
        | .missing => if o.disallowUnknown then .err (.dec .unknownField) else .next (pc + 1) { s with inp := r, sr := none }
        | .outside => .err (.dec .outside)
  | .objectNext =>                                                          -- :1787 skip_one
    skipTo o s (skipWs s.inp) (pc + 1)
  | .skipEmpty t =>                                                         -- :607
    match s.inp with
    | 123 :: r =>
      match skipWs r with
      | 125 :: t' => .next t { s with inp := t' }
      | r' =>
        match skipMembers o.validateString (skipFuel r') r' with
        | none => .err (.dec .syntax)
        | some t' => if o.disallowUnknown then .err (.dec .unknownField) else .next t { s with inp := t' }
    | _ =>
      -- not an object (the mismatch is saved already): the value is skipped; a `:` inside it is taken for a member
      match skipVal o.validateString (skipFuel s.inp) s.inp with
      | none => .err (.dec .syntax)
      | some r => if o.disallowUnknown && (consumed s.inp r).contains 58 then .err (.dec .unknownField) else .next t { s with inp := r }
  | .arraySkip =>                                                           -- :1692 skip_array (the specification's: strictly `v (, v)* ]`)
    match skipElems o.validateString (skipFuel s.inp) (skipWs s.inp) with
    | some r => .next (pc + 1) { s with inp := r }
    | none => .err (.dec .syntax)
  | .arrayClear _ n T | .arrayClearP _ n T =>                               -- :985 mem_clear_rem: from VP to the end of the array
    match s.stack with
    | f :: _ =>
      -- VP is the array's address (saved in the frame) or that of its element `k`
      let k := match s.vp.drop f.vp.length with
        | [.child k] => k
        | _ => 0
      match getAt s.root f.vp with
      | some (.arr xs) => .next (pc + 1) { s with root := setAt s.root f.vp (.arr (xs.take k ++ List.replicate (n - k) (zeroOf T))) }
      | _ => .err .stuck
    | [] => .err .stuck
  | .checkEmpty t c =>                                                      -- :1722
    match s.inp with
    | [] => .err (.dec .syntax)
    | b :: r => if b == c then .next t { (s.put (.sl [])) with inp := r } else .next (pc + 1) s
  | .sliceInit _ =>                                                         -- :1706 (length 0; the old elements stay in place)
    match getAt s.root s.vp with
    | some .nil => .next (pc + 1) (s.put (.sl []))
    | some (.sl _) => .next (pc + 1) s
    | _ => .err .stuck
  | .sliceAppend T =>                                                       -- :1741
    match s.stack with
    | f :: rest =>
      match getAt s.root f.vp with
      | some (.sl xs) =>
        let root' := if f.n < xs.length then s.root else setAt s.root f.vp (.sl (xs ++ [zeroOf T]))
        .next (pc + 1) { s with root := root', stack := { f with n := f.n + 1 } :: rest, vp := f.vp ++ [.child f.n] }
      | _ => .err .stuck
    | [] => .err .stuck
  | .mapInit =>                                                             -- :1569
    match getAt s.root s.vp with
    | some .nil => .next (pc + 1) (s.put (.map []))
    | some (.map _) => .next (pc + 1) s
    | _ => .err .stuck
  | .mapKey .str (.map _ E) _ =>                                            -- :1667 (the element is decoded into the entry found or made)
    match scanString s.inp with
    | none => .err (.dec .syntax)
    | some (k, r) =>
      match unquote k with
      | none => .err (.dec .syntax)
      | some key =>
        match getAt s.root s.vp with
        | some (.map kvs) =>
          match kvs.findIdx? fun p => keyEq p.1 (.str key) with
          | some i => .next (pc + 1) { s with inp := r, vp := s.vp ++ [.child i] }
          | none => .next (pc + 1) { (s.put (.map (kvs ++ [(.str key, zeroOf E)]))) with inp := r, vp := s.vp ++ [.child kvs.length] }
        | _ => .err .stuck
  | .mapKey .i8 (.map _ E) tgt => intKeyOp o true 8 E tgt pc s
  | .mapKey .i16 (.map _ E) tgt => intKeyOp o true 16 E tgt pc s
  | .mapKey .i32 (.map _ E) tgt => intKeyOp o true 32 E tgt pc s
  | .mapKey .i64 (.map _ E) tgt => intKeyOp o true 64 E tgt pc s
  | .mapKey .u8 (.map _ E) tgt => intKeyOp o false 8 E tgt pc s
  | .mapKey .u16 (.map _ E) tgt => intKeyOp o false 16 E tgt pc s
  | .mapKey .u32 (.map _ E) tgt => intKeyOp o false 32 E tgt pc s
  | .mapKey .u64 (.map _ E) tgt => intKeyOp o false 64 E tgt pc s
  | .mapKey .f32 (.map _ E) tgt => floatKeyOp o .f32 E tgt pc s
  | .mapKey .f64 (.map _ E) tgt => floatKeyOp o .f64 E tgt pc s
  | .mapKey .utextP (.map (.lib n) E) _ => textKeyOp n false E pc s
  | .mapKey .utext (.map (.ptr (.lib n)) E) _ => textKeyOp n true E pc s
  | .any =>                                                                 -- :1239 the generic decoder (parse, then `toAny`); a number out of range ends the run
    match getAt s.root s.vp with
    | none => .err .stuck
    | some (.any (.ptr _) _) => .err .stuck                                 -- an interface holding a pointer is decoded through the pointer: outside the model
    | some _ =>
      match parseR (skipFuel s.inp) s.inp with
      | none => .err (.dec .syntax)
      | some (j, r) =>
        match toAny o j with
        | (g, none) => .next (pc + 1) { (s.put g) with inp := r }
        | (_, some e) => .err (.dec e)
  | .recurse T => .call T                                                   -- :1987
  | .unquote =>                                                             -- :1497 a string inside a string (`,string` on a string)
    match s.inp with
    | 92 :: 34 :: r =>
      -- the inner literal ends at `\"`, the outer at the `"` behind it; the content is unquoted twice
      match scanString (92 :: 34 :: r) with
      | none => .err (.dec .syntax)
      | some (b, t) =>
        match unquote b with
        | none => .err (.dec .syntax)
        | some item =>
          match (stripQuotes item).bind unquote with
          | none => .err (.dec .syntax)
          | some u => .next (pc + 1) { (s.put (.str u)) with inp := t }
    | _ => .err (.dec .syntax)
  | .unsupported _ => .err (.dec .other)                                    -- :1297
  | .unmarshal (.ptr (.lib n)) _ =>                                         -- :1862 the same on a pointer DESTINATION: allocated when nil (unmarshal_func :1118)
    match skipVal o.validateString (skipFuel s.inp) s.inp with
    | none => .err (.dec .syntax)
    | some r =>
      match libUnmarshalJ n (s.inp.take (s.inp.length - r.length)) with
      | some (.ok v) => .next (pc + 1) { (s.put (.ptr v)) with inp := r }
      | some (.error e) => .err (.dec e)
      | none => .err .stuck
  | .unmarshalP (.ptr (.lib n)) _ =>                                        -- :1870 `skip_one`, then the type's own method on the text
    match skipVal o.validateString (skipFuel s.inp) s.inp with
    | none => .err (.dec .syntax)
    | some r =>
      match libUnmarshalJ n (s.inp.take (s.inp.length - r.length)) with
      | some (.ok v) => .next (pc + 1) { (s.put v) with inp := r }
      | some (.error e) => .err (.dec e)
      | none => .err .stuck
  | _ => .err .stuck            -- dyn / bin / emptyBytes / other callbacks / debug: outside the machine model

/-- the decoder's loop with `fuel` instructions; `_OP_recurse` runs the callee's program on the same stack -/
def run (o : DecOpts) (co : COpts) (lim : Option Nat) : Nat → Program → Nat → St → Option (Except XErr St)
  | 0, _, _, _ => none
  | fuel + 1, P, pc, s =>
    match P[pc]? with
    | none => some (.ok s)                             -- the epilogue: return
    | some ins =>
      match step o lim ins pc s with
      | .next pc' s' => run o co lim fuel P pc' s'
      | .err e => some (.error e)
      | .call T =>
        match run o co lim fuel (compile co T) 0 { s with et := none } with
        | some (.ok s') => run o co lim fuel P (pc + 1) { s' with vp := s.vp, et := merge s.et s'.et, sr := s.sr }
        | other => other

def St.start (s : Bytes) (dest : GoVal) : St :=
  { inp := s, ic := s, vp := [], root := dest, stack := [], et := none, sr := none }

/-- `Unmarshal` around the program: a new stack, the program, the saved type error, nothing but space behind the
    value (sonic.go / api.go CheckTrailings) -/
def finish (r : Except XErr St) : Except XErr GoVal :=
  match r with
  | .error e => .error e
  | .ok s =>
    if (skipWs s.inp).isEmpty then
      match s.et with
      | none => .ok s.root
      | some e => .error (.dec e)
    else .error (.dec .syntax)

def execFuel (fuel : Nat) (o : DecOpts) (co : COpts) (lim : Option Nat) (P : Program) (s : Bytes) (dest : GoVal) : Option (Except XErr GoVal) :=
  (run o co lim fuel P 0 (St.start s dest)).map finish

end SonicSpec.Dir
