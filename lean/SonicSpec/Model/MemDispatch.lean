/-
  C13, static tie: what a correct pair of dispatch tables (internal/native/dispatch_amd64.go useAVX2 / useSSE,
  regenerated into Generated/Dispatch.lean by go/factx_dispatch) looks like.  Names are lists of character
  codes.  Core Lean only.
-/
namespace SonicSpec.Mem.Dispatch

abbrev Name := List Nat
abbrev Table := List (Name × Name × Name)      -- (slot, package, symbol)

/-- case and underscores do not matter: `SkipOneFast` ~ `skip_one_fast`, `HTMLEscape` ~ `html_escape` -/
def norm (n : Name) : Name := (n.filter (· != 95)).map fun c => if 65 ≤ c && c ≤ 90 then c + 32 else c

/-- the symbol a slot must be filled with: subroutine address slots `S_x` take `S_x`; Go entry stubs `__CamelName`
    take `F_snake_name` -/
def slotMatches (slot sym : Name) : Bool :=
  if [83, 95].isPrefixOf slot then slot == sym                                    -- "S_"
  else if [95, 95].isPrefixOf slot then [70, 95].isPrefixOf sym && norm (slot.drop 2) == norm (sym.drop 2)   -- "__", "F_"
  else false

def slots (t : Table) : List Name := t.map (·.1)

/-- one table: only its own package is initialised and used, every slot gets the symbol of its own name, no slot twice -/
def tableOK (pkg : Name) (use : List Name) (t : Table) : Bool :=
  use == [pkg] && t.all (fun e => e.2.1 == pkg && slotMatches e.1 e.2.2) && (slots t).eraseDups.length == t.length

/-- both builds fill the same slots, with the same symbol names -/
def sameSlots (a b : Table) : Bool :=
  a.all (fun e => b.any fun f => f.1 == e.1 && f.2.2 == e.2.2) && b.all (fun e => a.any fun f => f.1 == e.1 && f.2.2 == e.2.2)

def avx2Pkg : Name := [97, 118, 120, 50]    -- "avx2"
def ssePkg : Name := [115, 115, 101]        -- "sse"

def tablesOK (au : List Name) (a : Table) (su : List Name) (s : Table) : Bool :=
  tableOK avx2Pkg au a && tableOK ssePkg su s && sameSlots a s && !a.isEmpty

end SonicSpec.Mem.Dispatch
