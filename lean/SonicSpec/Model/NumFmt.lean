/-
  Core C (numbers), executable model, part 2: value -> text.  Core Lean only.

    * `itoa`                      decimal text of an integer (`strconv.FormatInt`);
    * `shortest f q t`            the shortest decimal `d * 10^j` that `roundDec f` maps back to
                                  `(q, t)`: for k = 1 .. 17 digits the two k-digit neighbours of the
                                  exact value are tried, the nearer one first (`strconv`'s shortest
                                  formatting `FormatFloat(x, fmt, -1, bits)`);
    * `fmtBits f bits`            encoding/json's notation (encoding/json/encode.go floatEncoder):
                                  `%f` for 1e-6 <= |x| < 1e21, else `%e` with the exponent cleaned
                                  up (`e-07` -> `e-7`); the result is returned only if it parses
                                  back to the same bits (`fmt_roundtrip` holds by construction).

  The code being specified is machine code (native/f64toa.c, native/f32toa.c, native/fastint.h and the
  Go fallback internal/encoder/alg) and is tied to this model by correspondence only.
-/
import SonicSpec.Model.Num
namespace SonicSpec.Num

/-- decimal digits of a natural number, most significant first (`0` ↦ "0") -/
def natDigitsAux : Nat → Nat → Bytes → Bytes
  | 0, _, acc => acc
  | fuel + 1, n, acc =>
    let acc' := (UInt8.ofNat (48 + n % 10)) :: acc
    if n < 10 then acc' else natDigitsAux fuel (n / 10) acc'

def natDigits (n : Nat) : Bytes := natDigitsAux (n + 1) n []

/-- `strconv.FormatInt(n, 10)` -/
def itoa (n : Int) : Bytes :=
  if n < 0 then 45 :: natDigits n.natAbs else natDigits n.natAbs

/-! ### shortest digits -/

/-- `10^E ≤ N/D` -/
def pow10Le (E : Int) (N D : Nat) : Bool :=
  if E ≥ 0 then 10 ^ E.toNat * D ≤ N else D ≤ N * 10 ^ (-E).toNat

/-- number of decimal digits of `n` (`1` for `0`) -/
def numDigitsAux : Nat → Nat → Nat
  | 0, _ => 1
  | fuel + 1, n => if n < 10 then 1 else 1 + numDigitsAux fuel (n / 10)

def numDigits (n : Nat) : Nat := numDigitsAux n n

/-- `⌊log10 (N/D)⌋` for N, D > 0, by counting digits: of `⌊N/D⌋` when `N/D ≥ 1`, else of
    `⌊(D-1)/N⌋` (`N * 10^e ≥ D` first holds at `e` = that digit count) -/
def floorLog10 (N D : Nat) : Int :=
  if D ≤ N then (numDigits (N / D) : Int) - 1 else - (numDigits ((D - 1) / N) : Int)

/-- `⌊(N/D) / 10^j⌋` -/
def floorScaled (N D : Nat) (j : Int) : Nat :=
  if j ≥ 0 then N / (D * 10 ^ j.toNat) else (N * 10 ^ (-j).toNat) / D

/-- is `2 * (N/D)` strictly below / equal / above `c * 10^j`?  (`c` = sum of the two neighbours) -/
def cmpTwice (N D : Nat) (c : Nat) (j : Int) : Ordering :=
  if j ≥ 0 then compare (2 * N) (c * 10 ^ j.toNat * D) else compare (2 * N * 10 ^ (-j).toNat) (c * D)

/-- does the decimal `d * 10^j` round to `(q, t)`? -/
def roundsTo (f : Fmt) (q t : Nat) (d : Nat) (j : Int) : Bool :=
  roundDec f d j == some (q, t)

/-- candidates with k digits: the neighbours `lo * 10^j ≤ value < (lo+1) * 10^j`, nearer first
    (on a tie the even one first) -/
def candidates (N D : Nat) (E : Int) (k : Nat) : List (Nat × Int) :=
  let j : Int := E - (k : Int) + 1
  let lo := floorScaled N D j
  let hi := lo + 1
  match cmpTwice N D (lo + hi) j with
  | .lt => [(lo, j), (hi, j)]
  | .gt => [(hi, j), (lo, j)]
  | .eq => if lo % 2 = 0 then [(lo, j), (hi, j)] else [(hi, j), (lo, j)]

/-- search k = k0 .. k0+fuel-1 -/
def searchDigits (f : Fmt) (q t : Nat) (N D : Nat) (E : Int) : Nat → Nat → Option (Nat × Int)
  | 0, _ => none
  | fuel + 1, k =>
    match (candidates N D E k).find? (fun c => roundsTo f q t c.1 c.2) with
    | some c => some c
    | none => searchDigits f q t N D E fuel (k + 1)

/-- shortest decimal `d * 10^j` (as `(d, j)`) of the positive finite value `q * 2^(t - bias)`.
    The decimal exponent `E` is checked (`10^E ≤ value < 10^(E+1)`), so that the candidates tried for
    `k` digits really are the `k`-digit neighbours of the value. -/
def shortest (f : Fmt) (q t : Nat) : Option (Nat × Int) :=
  let N := q * 2 ^ t
  let D := 2 ^ f.bias
  let E := floorLog10 N D
  if pow10Le E N D && !pow10Le (E + 1) N D then searchDigits f q t N D E 17 1 else none

/-- strip trailing zeros of the digit string: `(d, j)` with `10 ∤ d` (d > 0) -/
def stripZeros : Nat → Nat → Int → Nat × Int
  | 0, d, j => (d, j)
  | fuel + 1, d, j => if d ≠ 0 ∧ d % 10 = 0 then stripZeros fuel (d / 10) (j + 1) else (d, j)

/-! ### notation -/

def zeros (n : Nat) : Bytes := List.replicate n 48

/-- `%e` with shortest digits and encoding/json's exponent clean-up: d[.ddd]e(+|-)x, x without padding -/
def fmtE (ds : Bytes) (dp : Int) : Bytes :=
  let x : Int := dp - 1
  let mant : Bytes :=
    match ds with
    | [] => [48]
    | [c] => [c]
    | c :: r => c :: 46 :: r
  mant ++ [101, if x < 0 then 45 else 43] ++ natDigits x.natAbs

/-- `%f` with shortest digits: no exponent, as many fraction digits as needed -/
def fmtF (ds : Bytes) (dp : Int) : Bytes :=
  if dp ≤ 0 then [48, 46] ++ zeros (-dp).toNat ++ ds
  else if dp.toNat ≥ ds.length then ds ++ zeros (dp.toNat - ds.length)
  else ds.take dp.toNat ++ [46] ++ ds.drop dp.toNat

/-- decompose the magnitude bits: (exponent field, mantissa field) -/
def fields (f : Fmt) (mag : Nat) : Nat × Nat :=
  (mag / 2 ^ (f.prec - 1), mag % 2 ^ (f.prec - 1))

/-- `(q, t)` of finite magnitude bits -/
def unpack (f : Fmt) (mag : Nat) : Nat × Nat :=
  let em := fields f mag
  if em.1 = 0 then (em.2, 0) else (em.2 + 2 ^ (f.prec - 1), em.1 - 1)

/-- bit patterns of the notation thresholds 1e-6 and 1e21 in the format (encoding/json compares
    in the float's own width: `float32(abs) < 1e-6`) -/
structure Thresh where
  lo : Nat
  hi : Nat

def thresh64 : Thresh := { lo := 0x3eb0c6f7a0b5ed8d, hi := 0x444b1ae4d6e2ef50 }
def thresh32 : Thresh := { lo := 0x358637bd, hi := 0x6258d727 }

/-- text of the bit pattern without the round-trip check: `none` for NaN / infinities
    (encoding/json: UnsupportedValueError) or when no candidate of ≤ 17 digits round-trips -/
def fmtBitsRaw (f : Fmt) (th : Thresh) (bits : Nat) : Option Bytes :=
  let sb := signBit f
  let neg := bits / sb % 2 = 1
  let mag := bits % sb
  if (fields f mag).1 = 2 ^ f.ebits - 1 then none
  else
    let sign : Bytes := if neg then [45] else []
    if mag = 0 then some (sign ++ [48])
    else
      let qt := unpack f mag
      match shortest f qt.1 qt.2 with
      | none => none
      | some (d0, j0) =>
        let dj := stripZeros 20 d0 j0
        let ds := natDigits dj.1
        let dp : Int := (ds.length : Int) + dj.2
        if mag < th.lo ∨ mag ≥ th.hi then some (sign ++ fmtE ds dp) else some (sign ++ fmtF ds dp)

/-- encoding/json's text for the bit pattern; returned only when it parses back to the same bits -/
def fmtBits (f : Fmt) (th : Thresh) (bits : Nat) : Option Bytes :=
  match fmtBitsRaw f th bits with
  | none => none
  | some txt =>
    match toBits f txt with
    | .ok b => if b = bits then some txt else none
    | .error _ => none

def fmtF64 (b : UInt64) : Option Bytes := fmtBits f64 thresh64 b.toNat
def fmtF32 (b : UInt32) : Option Bytes := fmtBits f32 thresh32 b.toNat

end SonicSpec.Num
