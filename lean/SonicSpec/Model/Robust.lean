/-
  C07 - executable model of the error-formatting index arithmetic and of the encoder state stack.
  Core Lean only (linked into the driver).  `Gen.calcBounds` / `Gen.astDescriptionBounds` are the
  REGENERATED translations of the Go functions; what is written by hand here is only the part
  around them: which slice / index / Repeat-count expressions the formatters evaluate, in Go's
  evaluation order, and when the Go runtime panics on them.
-/
import SonicSpec.Generated.Bounds
import SonicSpec.Generated.Consts
namespace SonicSpec.Robust
open SonicSpec.Gen

/-- what a formatter does: runtime panic, the "no sources available" text, or the normal text
    built from `Src[p:q]`, `x` dots, a caret, `y` dots -/
inductive Fmt where
  | panic
  | nosrc
  | ok (p x q y : Int)
  deriving DecidableEq, Repr

/-- Go slice expression `s[p:q]` on a string of length `size` does not panic -/
def sliceOk (size p q : Int) : Bool := decide (0 ≤ p) && decide (p ≤ q) && decide (q ≤ size)

/-- `strings.Repeat(".", n)` does not panic -/
def repeatOk (n : Int) : Bool := decide (0 ≤ n)

def compose (size : Int) (r : Int × Int × Int × Int) : Fmt :=
  if sliceOk size r.1 r.2.2.1 && repeatOk r.2.1 && repeatOk r.2.2.2 then .ok r.1 r.2.1 r.2.2.1 r.2.2.2
  else .panic

/-- internal/decoder/errors/errors.go:46-63 `SyntaxError.description`:
    line 48 empty-source test, line 52 `calcBounds(len(self.Src), self.Pos)`,
    line 59 `self.Src[p:q]`, lines 60-61 `strings.Repeat(".", x)`, `strings.Repeat(".", y)` -/
def decDescription (size pos : Int) : Fmt :=
  if size == 0 then .nosrc else compose size (calcBounds size pos)

/-- internal/decoder/errors/errors.go:143-178 `MismatchTypeError.Error` / `.Description`:
    the argument list of `fmt.Sprintf` (lines 168, 177) is evaluated left to right, so
    `swithchJSONType(self.Src, self.Pos)` - line 145 `switch src[pos]`, an unguarded index - runs
    before `se.description()`; an index outside `[0, len)` is a runtime panic (also for an empty
    source, which `newUnmatched` of optdec/errors.go:47-53 builds and `fix_error` of
    optdec/decoder.go:86-104 repairs before the error leaves the package). -/
def mismatchFmt (size pos : Int) : Fmt :=
  if decide (0 ≤ pos) && decide (pos < size) then decDescription size pos else .panic

/-- ast/error.go:78-118 `SyntaxError.description`: same arithmetic WITHOUT the out-of-range guard
    (lines 79-81, 89-107), line 84 empty-source test, line 114 `self.Src[p:q]`, 115-116 Repeat -/
def astDescription (size pos : Int) : Fmt :=
  if size == 0 then .nosrc else compose size (astDescriptionBounds size pos)

/-! ### encoder state stack: internal/encoder/vars/stack.go + internal/encoder/vm/vm.go:82-93

`Stack{sp uintptr; sb [MaxStack]State}`; `sp` is a BYTE offset into `sb`.  `M` = `MaxStack`,
`S` = `StateSize`.  An access is in bounds when the whole `State` lies inside `sb`. -/

inductive SOp where
  | save   -- vm.go:85 OP_save  -> Stack.Save -> Push (stack.go:85-93)
  | load   -- vm.go:82 OP_load  -> Stack.Load -> Cur  (stack.go:79-81, 103-106)
  | drop   -- vm.go:89 OP_drop  -> Stack.Drop -> Pop  (stack.go:95-101)
  | drop2  -- vm.go:91 OP_drop_2 = two Drops
  deriving DecidableEq, Repr

inductive SRes where
  | ok (sp : Nat)
  | tooDeep        -- vars.ERR_too_deep returned as an ordinary error (vm.go:86-88)
  | oob            -- a State read/written outside `sb` (what the model must never reach)
  deriving DecidableEq, Repr

/-- stack.go:85-93: `if sp >= MaxStack*StateSize {return false}; *Top() = v; sp += StateSize` -/
def push (M S sp : Nat) : SRes :=
  if sp ≥ M * S then .tooDeep
  else if sp + S ≤ M * S then .ok (sp + S) else .oob

/-- stack.go:95-101: `sp -= StateSize` (uintptr: wraps below zero = far outside), `*Top()` read+cleared -/
def pop (M S sp : Nat) : SRes :=
  if sp < S then .oob
  else if (sp - S) + S ≤ M * S then .ok (sp - S) else .oob

/-- stack.go:79-81,103-106: `Cur()` = `sb + sp - StateSize` read -/
def cur (M S sp : Nat) : SRes :=
  if sp < S then .oob
  else if sp ≤ M * S then .ok sp else .oob

def step (M S sp : Nat) : SOp → SRes
  | .save => push M S sp
  | .load => cur M S sp
  | .drop => pop M S sp
  | .drop2 => match pop M S sp with
    | .ok sp' => pop M S sp'
    | r => r

/-- run a trace of stack operations from `sp`; stops at the first error -/
def run (M S : Nat) : Nat → List SOp → SRes
  | sp, [] => .ok sp
  | sp, op :: rest => match step M S sp op with
    | .ok sp' => run M S sp' rest
    | r => r

/-- the bracket discipline of compiled programs (compiler.go:248-254 ptr, 264-291 map, 385-397,
    405-422, 452-518: every load/drop is preceded by its save): `d` = number of open saves -/
def bracketed : Nat → List SOp → Bool
  | _, [] => true
  | d, .save :: rest => bracketed (d + 1) rest
  | d, .load :: rest => decide (1 ≤ d) && bracketed d rest
  | d, .drop :: rest => decide (1 ≤ d) && bracketed (d - 1) rest
  | d, .drop2 :: rest => decide (2 ≤ d) && bracketed (d - 2) rest

def encM : Nat := encMaxStack.toNat
def encS : Nat := encStateSize.toNat

/-! ### stream decoder progress: internal/decoder/api/stream.go:71-118 (`Decode`), 133-139 (`More`),
    189-203 (`peek`), 205-216 (`scan`)

The reader/buffer machinery is abstracted to "the unread rest of the stream" (chunking is C17's subject);
`skip` stands for `native.SkipOneFast` + `Decoder.Decode` on the skipped value: `some n` = a value of
`n` bytes was decoded, `none` = syntax error / EOF inside the value. -/

structure SD where
  rest : List UInt8          -- unread input (buffer + what the reader still holds)
  err : Bool                 -- sticky `self.err != nil`
  deriving DecidableEq, Repr

inductive DRes where
  | ok      -- `Decode` returned nil
  | error   -- `Decode` returned a non-nil error (io.EOF included)
  deriving DecidableEq, Repr

def isSpace (c : UInt8) : Bool := c == 0x20 || c == 0x09 || c == 0x0a || c == 0x0d

def dropSpace : List UInt8 → List UInt8
  | [] => []
  | c :: r => if isSpace c then dropSpace r else c :: r

def isCloser (c : UInt8) : Bool := c == 0x5d || c == 0x7d   -- ']' '}'

/-- one call of `StreamDecoder.Decode`:
    line 73 `if self.More()`: `More` (133-139) is false when `err != nil`; otherwise `peek` scans past blanks,
    at end of stream records io.EOF (`setErr`) and `More` is false; on a non-blank byte `More` = the byte is
    neither `]` nor `}`.  When `More` is false the body is skipped and line 117 returns `self.err`. -/
def decode (skip : List UInt8 → Option Nat) (s : SD) : DRes × SD :=
  if s.err then (.error, s)
  else match dropSpace s.rest with
    | [] => (.error, { rest := [], err := true })
    | c :: r =>
      if isCloser c then (.ok, { rest := c :: r, err := false })   -- More() false, err nil: `return self.err` = nil
      else match skip (c :: r) with
        | none => (.error, { rest := c :: r, err := true })
        | some n => (.ok, { rest := (c :: r).drop n, err := false })

def decodeN (skip : List UInt8 → Option Nat) : Nat → SD → List DRes × SD
  | 0, s => ([], s)
  | n + 1, s => let (r, s') := decode skip s
                let (rs, s'') := decodeN skip n s'
                (r :: rs, s'')

/-! ### positions reported by the Go glue (patches/C07-error-position-clamp.diff)

The native scanners hand back a cursor that may lie a few bytes past the end of the source (or at -1) when the
input ends early; `raw` below is that cursor, an ARBITRARY integer as far as the model is concerned.  The
wrappers are the places where an error value is built from it.  (Hand transliteration; the tie to the tree is
the correspondence verdict `pos-outside-input`, which demands the conclusion of `error_pos_in_input` from every
error the real code returns.) -/

/-- `errors.ClampPos` / ast `clampPos`: `if pos > size {return size}; if pos < 0 {return 0}; return pos` -/
def clampPos (pos size : Int) : Int :=
  if pos > size then size else if pos < 0 then 0 else pos

/-- internal/decoder/errors `error_wrap_heap(src, pos, code)`: `Pos: ClampPos(pos, len(src))` (JIT decoder, `ErrorWrap`) -/
def errorWrapPos (size raw : Int) : Int := clampPos raw size

/-- internal/decoder/api `Decoder.CheckTrailings`: `Pos: errors.ClampPos(pos, len(buf))`, `pos` = decoder cursor -/
def checkTrailingsPos (size raw : Int) : Int := clampPos raw size

/-- internal/decoder/optdec `fix_error(json, pos, err)`: `Pos: errors.ClampPos(int(e.Pos)+pos, len(json))` -/
def optdecFixErrorPos (size base ePos : Int) : Int := clampPos (ePos + base) size

/-- ast `(*Parser).syntaxError` and `ExportError`: `Pos: clampPos(self.p, len(self.s))` -/
def astSyntaxErrorPos (size raw : Int) : Int := clampPos raw size

/-- internal/decoder/api `Skip`: on a negative return code the end position is `errors.ClampPos(p, len(data))` -/
def skipErrorEnd (size raw : Int) : Int := clampPos raw size

end SonicSpec.Robust
