/-
  Core D, decoding half, second architecture (C11): `Opt.decode` = the TWO-PHASE decoder of sonic's
  alternative implementation (internal/decoder/optdec, SONIC_USE_OPTDEC=1; default on arm64):

    phase 1  `parseDom`  bytes → DOM.  The native parser (optdec/native.go `Parser.parse`) walks the whole
             document once and fills a node array: every string is un-escaped THEN, every number literal is
             converted THEN (integer class / float64 bits, node.go KUint/KSint/KReal) unless raw-number
             mode is on (UseNumber AND the root type is interface{}, map[string]interface{} or []interface{},
             native.go:184), so a literal outside the float64 range is a syntax error of the document
             wherever it stands.
    phase 2  `bindDom`   DOM → destination, by type (optdec/functor.go, slice.go, map.go, structs.go):
             integers are range-checked from the parsed class (no text is read again), floats come from the
             float64 computed in phase 1, containers recurse over the node lists.

  `Quirks` switches the places where the real optdec is known to leave encoding/json (all listed as
  C11-optdec-* findings): `Quirks.real` is the code as it is, `Quirks.none` the repaired reading.  The
  refinement theorem (Proofs/BindDom.lean, Props/C11.lean) is `Opt.decode .none = Bind.decode` for ALL inputs;
  for `Quirks.real` there are kernel-checked witnesses of each difference and the equality under the
  hypothesis that no quirk fires.

  Core Lean only.  Outside this model: library types, the value pools of the fastmap path (only its
  duplicate-key behaviour is modelled, `fastmapNullDup`), the `,string` leniency of optdec ("+1"), embedded
  pointers, the white space a top-level RawMessage keeps.
-/
import SonicSpec.Model.Bind
namespace SonicSpec.Opt
open SonicSpec SonicSpec.Go SonicSpec.Json SonicSpec.Bind

/-- where optdec as it is differs from the specification -/
structure Quirks where
  /-- a number literal outside the float64 range is a syntax error of the whole document (eager conversion),
      unless raw-number mode is on -/
  eagerRange : Bool
  /-- `null` as an element of []int32/[]int64/[]uint32/[]uint64/[]uint8/[]string or of map[string]string is a
      type error (the specialised slice / map decoders of optdec/slice.go, map.go) -/
  nullElem : Bool
  /-- float32 destinations are narrowed from the float64 of phase 1 (double rounding) -/
  f32ViaF64 : Bool
  /-- SONIC_USE_FASTMAP=1 (node.go canUseFastMap: interface{} / map[string]interface{} / []interface{} root, no
      CopyString, no UseInt64): inside an interface{} a duplicate object key whose later value is `null` keeps
      the earlier value -/
  fastmapNullDup : Bool := false
deriving Repr, DecidableEq

def Quirks.none : Quirks := { eagerRange := false, nullElem := false, f32ViaF64 := false }
def Quirks.real : Quirks := { eagerRange := true, nullElem := true, f32ViaF64 := true }
def Quirks.realFastmap : Quirks := { eagerRange := true, nullElem := true, f32ViaF64 := true, fastmapNullDup := true }

/-- integer class of a number text, computed once at parse time: sign seen, magnitude -/
inductive NumCls where
  | int (neg : Bool) (signed : Bool) (mag : Nat)
  | real
deriving Repr, DecidableEq

def classify : Bytes → NumCls
  | 45 :: r => match digitsVal r with
    | some m => .int true true m
    | none => .real
  | 43 :: r => match digitsVal r with
    | some m => .int false true m
    | none => .real
  | s => match digitsVal s with
    | some m => .int false false m
    | none => .real

/-- the DOM: what phase 1 leaves for phase 2 -/
inductive Dom where
  | null
  | bool (b : Bool)
  | num (lit : Bytes) (cls : NumCls) (f64 : Option (Option UInt64))   -- text span, integer class, float64 bits
  | str (raw : Bytes) (val : Bytes)                                   -- literal text, un-escaped value
  | arr (raw : Bytes) (xs : List Dom)
  | obj (raw : Bytes) (kvs : List (Bytes × Dom))                      -- keys un-escaped
deriving Repr, Inhabited

/-- raw-number mode of the parser (native.go:184, node.go:121) -/
def isEfaceRoot : GoType → Bool
  | .any => true
  | .map .str .any => true
  | .sl .any => true
  | _ => false

def eagerMode (o : DecOpts) (T : GoType) : Bool := !(o.useNumber && isEfaceRoot T)

def mkNum (o : DecOpts) (l : Bytes) : Dom := .num l (classify l) (floatHook64 o l)

/-- a literal the eager conversion refuses -/
def overflows (o : DecOpts) (l : Bytes) : Bool := floatHook64 o l == some none

mutual
/-- phase 1: one value at the head of `s` (no leading space); `fail` = refuse literals outside float64 -/
def parseDom (o : DecOpts) (fail : Bool) : Nat → Bytes → Except DErr (Dom × Bytes)
  | 0, _ => .error .syntax
  | n+1, s =>
    match s with
    | 110 :: 117 :: 108 :: 108 :: r => .ok (.null, r)
    | 116 :: 114 :: 117 :: 101 :: r => .ok (.bool true, r)
    | 102 :: 97 :: 108 :: 115 :: 101 :: r => .ok (.bool false, r)
    | 34 :: r =>
      match scanString r with
      | none => .error .syntax
      | some (b, t) =>
        match unquote b with
        | none => .error .syntax
        | some u => .ok (.str b u, t)
    | 91 :: r =>
      match skipWs r with
      | 93 :: t => .ok (.arr (consumed s t) [], t)
      | r' =>
        match parseDomElems o fail n r' with
        | .error e => .error e
        | .ok (xs, t) => .ok (.arr (consumed s t) xs, t)
    | 123 :: r =>
      match skipWs r with
      | 125 :: t => .ok (.obj (consumed s t) [], t)
      | r' =>
        match parseDomMembers o fail n r' with
        | .error e => .error e
        | .ok (kvs, t) => .ok (.obj (consumed s t) kvs, t)
    | _ =>
      match scanNumber s with
      | none => .error .syntax
      | some (l, t) => if fail && overflows o l then .error .syntax else .ok (mkNum o l, t)
def parseDomElems (o : DecOpts) (fail : Bool) : Nat → Bytes → Except DErr (List Dom × Bytes)
  | 0, _ => .error .syntax
  | n+1, s =>
    match parseDom o fail n s with
    | .error e => .error e
    | .ok (v, r) =>
      match skipWs r with
      | 44 :: t =>
        match parseDomElems o fail n (skipWs t) with
        | .error e => .error e
        | .ok (xs, t') => .ok (v :: xs, t')
      | 93 :: t => .ok ([v], t)
      | _ => .error .syntax
def parseDomMembers (o : DecOpts) (fail : Bool) : Nat → Bytes → Except DErr (List (Bytes × Dom) × Bytes)
  | 0, _ => .error .syntax
  | n+1, s =>
    match s with
    | 34 :: r =>
      match scanString r with
      | none => .error .syntax
      | some (k, r1) =>
        match skipWs r1 with
        | 58 :: r2 =>
          match unquote k with
          | none => .error .syntax
          | some key =>
            match parseDom o fail n (skipWs r2) with
            | .error e => .error e
            | .ok (v, r3) =>
              match skipWs r3 with
              | 44 :: t =>
                match parseDomMembers o fail n (skipWs t) with
                | .error e => .error e
                | .ok (kvs, t') => .ok ((key, v) :: kvs, t')
              | 125 :: t => .ok ([(key, v)], t)
              | _ => .error .syntax
        | _ => .error .syntax
    | _ => .error .syntax
end

def parseDomDoc (o : DecOpts) (fail : Bool) (s : Bytes) : Except DErr Dom :=
  match parseDom o fail (s.length + 1) (skipWs s) with
  | .error e => .error e
  | .ok (v, r) => if (skipWs r).isEmpty then .ok v else .error .syntax

/-! ### phase 2 -/

def clsInt : NumCls → Option Int
  | .int neg _ m => some (if neg then - (Int.ofNat m) else Int.ofNat m)
  | .real => none

def clsUint : NumCls → Option Nat
  | .int false false m => some m
  | _ => none

/-- a number node into interface{} -/
def domAnyNumber (o : DecOpts) (lit : Bytes) (cls : NumCls) (f64 : Option (Option UInt64)) : R :=
  if o.useNumber then (.any .num (.num lit), none)
  else
    match (if o.useInt64 then (clsInt cls).bind fun n => if inRangeInt 64 n then some n else none else none) with
    | some n => (.any (.int 64) (.int n), none)
    | none =>
      match f64 with
      | none => (.nil, some .outside)
      | some none => (.nil, some .mismatch)
      | some (some b) => (.any .f64 (.f64 b), none)

def domF32 (o : DecOpts) (q : Quirks) (lit : Bytes) (cur : GoVal) : R :=
  if q.f32ViaF64 then
    match Num.f32ViaF64 lit with
    | .ok b => (.f32 (UInt32.ofNat b), none)
    | .error .range => (cur, some .mismatch)
    | .error _ => (cur, some .outside)
  else bindF32 o lit cur

/-- a number node into a scalar destination: range checks on the parsed class, floats from phase 1 -/
def domStoreNumber (o : DecOpts) (q : Quirks) (lit : Bytes) (cls : NumCls) (f64 : Option (Option UInt64))
    (T : GoType) (cur : GoVal) : R :=
  match T with
  | .int w => match clsInt cls with
    | some n => if inRangeInt w n then (.int n, none) else (cur, some .mismatch)
    | none => (cur, some .mismatch)
  | .uint w => match clsUint cls with
    | some n => if inRangeUint w n then (.uint n, none) else (cur, some .mismatch)
    | none => (cur, some .mismatch)
  | .f64 => match f64 with
    | none => (cur, some .outside)
    | some none => (cur, some .mismatch)
    | some (some b) => (.f64 b, none)
  | .f32 => domF32 o q lit cur
  | .num => (.num lit, none)
  | .any => domAnyNumber o lit cls f64
  | .raw => (.raw lit, none)
  | .lib _ => (cur, some .outside)
  | _ => (cur, some .mismatch)

/-- a `,string` field (optdec/stringopts.go): same literal store as the specification -/
def domBindQuoted (o : DecOpts) (d : Dom) (T : GoType) (cur : GoVal) : R :=
  match d with
  | .null => (bindNull T cur, none)
  | .str _ item =>
    if item == [110, 117, 108, 108] then (bindNull T cur, none)
    else
      let (v, e) := storeQuoted o item (ptrBase T) (peel T cur)
      (wrapPtr T v, e)
  | _ => (cur, some .other)

/-- element types whose slices have a specialised decoder that refuses `null` elements -/
def nullElemSlice : GoType → Bool
  | .int w => w ≥ 32
  | .uint w => w ≥ 32 || w == 8
  | .str => true
  | _ => false

def isNullDom : Dom → Bool
  | .null => true
  | _ => false

mutual
def domToAny (o : DecOpts) (fm : Bool) : Dom → R
  | .null => (.nil, none)
  | .bool b => (.any .bool (.bool b), none)
  | .num l c f => domAnyNumber o l c f
  | .str _ s => (.any .str (.str s), none)
  | .arr _ xs => let (vs, e) := domAnyElems o fm xs; (.any (.sl .any) (.sl vs), e)
  | .obj _ kvs => let (es, e) := domAnyMembers o fm kvs []; (.any (.map .str .any) (.map es), e)
def domAnyElems (o : DecOpts) (fm : Bool) : List Dom → List GoVal × Option DErr
  | [] => ([], none)
  | x :: xs =>
    let (v, e) := domToAny o fm x
    let (vs, e') := domAnyElems o fm xs
    (v :: vs, merge e e')
def domAnyMembers (o : DecOpts) (fm : Bool) : List (Bytes × Dom) → List (GoVal × GoVal) → List (GoVal × GoVal) × Option DErr
  | [], acc => (acc, none)
  | (key, x) :: kvs, acc =>
    if fm && isNullDom x && acc.any (fun p => keyEq p.1 (.str key)) then domAnyMembers o fm kvs acc
    else
    let (v, e) := domToAny o fm x
    let (res, e') := domAnyMembers o fm kvs (mapSet acc (.str key) v)
    (res, merge e e')
end

mutual
/-- phase 2: one node into a destination of type `T` currently holding `cur` -/
def bindDom (o : DecOpts) (q : Quirks) : Dom → GoType → GoVal → R
  | .null, T, cur => (bindNull T cur, none)
  | .bool b, T, cur => let (v, e) := storeBool false b (ptrBase T) (peel T cur); (wrapPtr T v, e)
  | .num l c f, T, cur => let (v, e) := domStoreNumber o q l c f (ptrBase T) (peel T cur); (wrapPtr T v, e)
  | .str body s, T, cur =>
    let (v, e) := storeString s (34 :: (body ++ [34])) (ptrBase T) (peel T cur); (wrapPtr T v, e)
  | .arr raw xs, T, cur =>
    let c := peel T cur
    match ptrBase T with
    | .sl t =>
      let (vs, e) := bindDomElems o q xs t (curElems c) none (q.nullElem && nullElemSlice t)
      (wrapPtr T (.sl vs), e)
    | .bytes =>
      let (vs, e) := bindDomElems o q xs (.uint 8) (curElems c) none q.nullElem
      (wrapPtr T (.bytes (toBytes vs)), e)
    | .arr n t =>
      let (vs, e) := bindDomElems o q xs t (curElems c) (some n) false
      (wrapPtr T (.arr (vs ++ List.replicate (n - vs.length) (zeroOf t))), e)
    | .any => let (vs, e) := domAnyElems o q.fastmapNullDup xs; (wrapPtr T (.any (.sl .any) (.sl vs)), e)
    | .raw => (wrapPtr T (.raw raw), none)
    | .lib _ => (wrapPtr T c, some .outside)
    | _ => (wrapPtr T c, some .mismatch)
  | .obj raw kvs, T, cur =>
    let c := peel T cur
    match ptrBase T with
    | .st fs =>
      let (vs, e) := bindDomStruct o q kvs (resolveFields fs) (curFields fs c)
      (wrapPtr T (.st vs), e)
    | .map K E =>
      if mapKeyOk K then
        let (es, e) := bindDomMap o q kvs K E (curEntries c)
          (q.nullElem && (match K, E with | .str, .str => true | _, _ => false))
        (wrapPtr T (.map es), e)
      else (wrapPtr T c, some .mismatch)
    | .any => let (es, e) := domAnyMembers o q.fastmapNullDup kvs []; (wrapPtr T (.any (.map .str .any) (.map es)), e)
    | .raw => (wrapPtr T (.raw raw), none)
    | .lib _ => (wrapPtr T c, some .outside)
    | _ => (wrapPtr T c, some .mismatch)
/-- elements; `nullErr` = this slice decoder refuses `null` elements -/
def bindDomElems (o : DecOpts) (q : Quirks) : List Dom → GoType → List GoVal → Option Nat → Bool → List GoVal × Option DErr
  | [], _, _, _, _ => ([], none)
  | x :: xs, t, curs, lim, nullErr =>
    if lim == some 0 then ([], none) else
    let (v, e) := bindDom o q x t (curs.headD (zeroOf t))
    let e := if nullErr && isNullDom x then merge e (some .mismatch) else e
    let (vs, e') := bindDomElems o q xs t curs.tail (lim.map (· - 1)) nullErr
    (v :: vs, merge e e')
def bindDomStruct (o : DecOpts) (q : Quirks) : List (Bytes × Dom) → List Field → List GoVal → List GoVal × Option DErr
  | [], _, vs => (vs, none)
  | (key, x) :: kvs, fields, vs =>
    match lookupField fields o.caseSensitive key with
    | .outside =>
      let (res, e') := bindDomStruct o q kvs fields vs
      (res, merge (some .outside) e')
    | .missing =>
      let (res, e') := bindDomStruct o q kvs fields vs
      (res, merge (if o.disallowUnknown then some .unknownField else none) e')
    | .found f =>
      let cur := vs.getD f.idx (zeroOf f.ty)
      let (v, e) := if f.quoted then domBindQuoted o x f.ty cur else bindDom o q x f.ty cur
      let (res, e') := bindDomStruct o q kvs fields (vs.set f.idx v)
      (res, merge e e')
def bindDomMap (o : DecOpts) (q : Quirks) : List (Bytes × Dom) → GoType → GoType → List (GoVal × GoVal) → Bool → List (GoVal × GoVal) × Option DErr
  | [], _, _, acc, _ => (acc, none)
  | (key, x) :: kvs, K, E, acc, nullErr =>
    let (v, e) := bindDom o q x E (zeroOf E)
    let e := if nullErr && isNullDom x then merge e (some .mismatch) else e
    match bindKey K key with
    | .key kv =>
      let (res, e') := bindDomMap o q kvs K E (mapSet acc kv v) nullErr
      (res, merge e e')
    | _ =>
      let (res, e') := bindDomMap o q kvs K E acc nullErr
      (res, merge (merge e (some .mismatch)) e')
end

/-- the two phases: value and first saved error -/
def fastmapOn (o : DecOpts) (T : GoType) : Bool := !o.copyString && !o.useInt64 && isEfaceRoot T

def decodeFull (q : Quirks) (o : DecOpts) (T : GoType) (s : Bytes) : R :=
  match parseDomDoc o (q.eagerRange && eagerMode o T) s with
  | .error _ => (zeroOf T, some .syntax)
  | .ok d => bindDom o { q with fastmapNullDup := q.fastmapNullDup && fastmapOn o T } d T (zeroOf T)

def decode (q : Quirks) (o : DecOpts) (T : GoType) (s : Bytes) : Except DErr GoVal :=
  match decodeFull q o T s with
  | (v, none) => .ok v
  | (_, some e) => .error e

end SonicSpec.Opt
