/-
  Core I (memory-indexed scanners): the routines, written after the C in /repo/native
  (file:line cited at each definition).  Core Lean only.

  Every routine has
    * a scalar step (`…Step`, one byte) and an end-of-input rule (`…Eof`): the scalar tail of the C,
      run by `scalarLoop` with one guarded load per byte;
    * the vector code for one block (`…Blk`), written on the masks the C computes
      (lists of bits, lowest first; `ctz` = `__builtin_ctz`);
    * the `Scan` that puts them together; `Scan.run` adds the rounds of block widths.
  Widths per build: see `Widths.avx2` / `Widths.sse` at the end.
-/
import SonicSpec.Model.Mem
namespace SonicSpec.Mem

/-! ### first byte of a class: lspace, memcchr_quote, memcchr_html_quote, memcchr_p32 -/

/-- native/scanning.h:65 `isspace`, native/lspace.h:55 (the scalar `switch`) -/
def isSpace (c : UInt8) : Bool := c == 32 || c == 13 || c == 10 || c == 9

/-- native/parsing.h:114 `_mm_find_quote` / `_SingleQuoteTab[c].n != 0`: control, `"`, `\` -/
def quoteSpecial (c : UInt8) : Bool := c < 32 || c == 34 || c == 92

/-- native/parsing.h:504 `_mm_find_html`: `<`, `>`, `&`, 0xE2 -/
def htmlSpecial (c : UInt8) : Bool := c == 60 || c == 62 || c == 38 || c == 226

/-- native/parsing.h:395 `memcchr_p32`: the backslash -/
def isBackslash (c : UInt8) : Bool := c == 92

/-- scalar: stop at the first byte of the class -/
def findStep (special : UInt8 → Bool) (_ : Unit) (off : Nat) (b : UInt8) : Step Unit Nat :=
  if special b then .done off else .cont ()

/-- vector: `mask = movemask(class(block)); if (mask) return sp - ss + ctz(mask)` -/
def findBlk (special : UInt8 → Bool) (_ : Unit) (off : Nat) (bs : Bytes) : Step Unit Nat :=
  match ctz (bs.map special) with
  | some i => .done (off + i)
  | none => .cont ()

/-- position of the first byte of the class, `len` if there is none -/
def findScan (special : UInt8 → Bool) : Scan Unit Nat where
  blk := findBlk special
  tail := scalarLoop (findStep special) (fun _ off => off)

def findSpecial (special : UInt8 → Bool) (Ws : List Nat) (rd : Rd) (len p : Nat) : Option Nat :=
  (findScan special).run rd len Ws () p

/-- native/lspace.h:22 `lspace_1(sp, nb, p)`: first non-space at or after `p` (AVX2: 32-byte rounds, SSE: scalar only) -/
def lspace (Ws : List Nat) (rd : Rd) (len p : Nat) : Option Nat :=
  findSpecial (fun c => !isSpace c) Ws rd len p

/-- shape of the UTF-8 fast path (native/utf8.h:376 `is_ascii`, :480 the 128/64-byte rounds): blocks made of ASCII
    bytes only are skipped, validation proper starts at the first byte ≥ 0x80 -/
def asciiPrefix (Ws : List Nat) (rd : Rd) (len p : Nat) : Option Nat :=
  findSpecial (fun c => c ≥ 128) Ws rd len p

/-- native/scanning.h:86 `advance_ns`: up to four manual tests, then `lspace`; result `(ch, *p)`, `ch = 0` at EOF.
    Every `sp[vi]` is guarded by `vi < nb`. -/
def nsTry (rd : Rd) (len vi : Nat) (k : Nat → Option (UInt8 × Nat)) : Option (UInt8 × Nat) :=
  if vi < len then
    match rd vi with
    | none => none
    | some b => if !isSpace b then some (b, vi + 1) else k (vi + 1)
  else k (vi + 1)

def advanceNs (Ws : List Nat) (rd : Rd) (len p : Nat) : Option (UInt8 × Nat) :=
  nsTry rd len p fun v1 => nsTry rd len v1 fun v2 => nsTry rd len v2 fun v3 => nsTry rd len v3 fun v4 =>
    if v4 ≥ len then some (0, v4)
    else
      match lspace Ws rd len v4 with
      | none => none
      | some vi =>
        if vi ≥ len then some (0, p)        -- `return 0` without storing `*p`
        else
          match rd vi with
          | none => none
          | some b => some (b, vi + 1)

/-! ### string end with escape carry: advance_string_default (native/scanning.h:128) -/

/-- `cr` = the carry of the odd-backslash run (next byte is escaped), `ep` = `*ep` (first backslash, `none` = -1),
    `ch` = the C variable `ch`, which the vector rounds never assign -/
structure StrSt where
  cr : Bool
  ep : Option Nat
  ch : UInt8
  deriving DecidableEq, Repr

inductive StrRes where
  | found (e : Nat) (ep : Option Nat)     -- returns `e` = one past the closing quote
  | eof                                   -- -ERR_EOF
  deriving DecidableEq, Repr

/-- the returned position only (`none` = -ERR_EOF) -/
def StrRes.pos : StrRes → Option Nat
  | .found e _ => some e
  | .eof => none

/-- `ep_setx(x)`: `if (*ep == -1) *ep = x` -/
def epSet (ep : Option Nat) (x : Nat) : Option Nat :=
  match ep with
  | some e => some e
  | none => some x

/-- scalar tail, scanning.h:320: `while (nb-- > 0 && (ch = *sp++) != '"') { if (ch == '\\') { if (nb == 0) return EOF; ep_setc(); sp++, nb--; } }`.
    The byte behind a backslash is skipped (state `cr`), `ch` keeps the last byte that was assigned. -/
def strStep (st : StrSt) (off : Nat) (b : UInt8) : Step StrSt StrRes :=
  if st.cr then .cont { st with cr := false }
  else if b == 34 then .done (.found (off + 1) st.ep)
  else if b == 92 then .cont { cr := true, ep := epSet st.ep off, ch := b }
  else .cont { st with ch := b }

/-- scanning.h:311 (`cr != 0 && nb == 0` ⇒ EOF), :326 (backslash last ⇒ EOF), :339 `if (ch == '"') return sp - ss; else EOF`:
    when the loop never assigned `ch`, the test reads the uninitialised variable (DESIGN §8 #11). -/
def strEof (st : StrSt) (off : Nat) : StrRes :=
  if st.cr then .eof else if st.ch == 34 then .found off st.ep else .eof

/-- the `m0_mask` macro (scanning.h:191), specified by the carry automaton: which bytes of the block are escaped
    given the carry in, and the carry out.  (The add-with-carry bit trick itself is not modelled.) -/
def escMask : Bool → Bytes → List Bool × Bool
  | cr, [] => ([], cr)
  | cr, b :: bs =>
    let r := escMask (!cr && b == 92) bs
    (cr :: r.1, r.2)

/-- one 64- or 32-byte round (scanning.h:199-258 / 262-306): `m1` backslash mask, `ep_setx(sp - ss + ctz(m1))`,
    escaped quotes masked out of `m0`, `if (m0) return sp - ss + ctz(m0) + 1`.
    (The C skips the masking when `m1 == 0 && cr == 0`; `escMask false` of a block without backslash is all-zero.) -/
def strBlk (st : StrSt) (off : Nat) (bs : Bytes) : Step StrSt StrRes :=
  let ep' := match ctz (bs.map (· == 92)) with
    | some i => epSet st.ep (off + i)
    | none => st.ep
  let e := escMask st.cr bs
  match ctz (List.zipWith (fun b esc => b == 34 && !esc) bs e.1) with
  | some i => .done (.found (off + i + 1) ep')
  | none => .cont { cr := e.2, ep := ep', ch := st.ch }

def strScan : Scan StrSt StrRes where
  blk := strBlk
  tail := scalarLoop strStep strEof

/-- `advance_string_default(src, p, &ep)`; `ch0` = whatever the uninitialised `ch` holds.
    Both builds: `Ws = [64, 32]` (AVX2 2x32 / 1x32 loads, SSE 4x16 / 2x16 loads). -/
def advStr (ch0 : UInt8) (Ws : List Nat) (rd : Rd) (len p : Nat) : Option StrRes :=
  if len = p then some .eof else strScan.run rd len Ws ⟨false, none, ch0⟩ p

/-! ### skip_string_fast (native/scanning.h:1498): 32-byte rounds, tail skips two bytes at a backslash -/

def sfStep (cr : Bool) (off : Nat) (b : UInt8) : Step Bool (Option Nat) :=
  if cr then .cont false
  else if b == 92 then .cont true
  else if b == 34 then .done (some (off + 1))
  else .cont false

def sfBlk (cr : Bool) (off : Nat) (bs : Bytes) : Step Bool (Option Nat) :=
  let e := escMask cr bs
  match ctz (List.zipWith (fun b esc => b == 34 && !esc) bs e.1) with
  | some i => .done (some (off + i + 1))
  | none => .cont e.2

/-- `none` inside = -ERR_EOF (`*p` untouched) -/
def sfScan : Scan Bool (Option Nat) where
  blk := sfBlk
  tail := scalarLoop sfStep (fun _ _ => none)

def skipStringFast (Ws : List Nat) (rd : Rd) (len p : Nat) : Option (Option Nat) :=
  sfScan.run rd len Ws false p

/-! ### bracket counting: skip_container_fast (native/scanning.h:1438) -/

structure CtSt where
  inq : Bool          -- prev_inquote
  cr : Bool           -- prev_bs
  lnum : Nat
  rnum : Nat
  deriving DecidableEq, Repr

/-- the scalar twin of one byte of `get_string_maskx64` + the brace walk: an unescaped quote toggles `inq`
    (the opening quote itself already counts as inside, the closing one as outside), braces count outside strings,
    a right brace closes when `lnum <= rnum` -/
def ctStep (lc rc : UInt8) (st : CtSt) (off : Nat) (b : UInt8) : Step CtSt Nat :=
  let cr' := !st.cr && b == 92
  let inq' := if b == 34 && !st.cr then !st.inq else st.inq
  let isL := b == lc && !inq'
  let isR := b == rc && !inq'
  if isR && st.lnum ≤ st.rnum then .done (off + 1)
  else .cont { inq := inq', cr := cr', lnum := if isL then st.lnum + 1 else st.lnum, rnum := if isR then st.rnum + 1 else st.rnum }

/-- `_mm_clmulepi64_si128(quote_mask, 0xFF..)` xor `prev_inquote`: inclusive prefix xor with carry -/
def prefixXor : Bool → List Bool → List Bool × Bool
  | c, [] => ([], c)
  | c, q :: r =>
    let c' := xor c q
    let x := prefixXor c' r
    (c' :: x.1, x.2)

/-- `while (rbrace > 0) { lnum = last_lnum + popcount((rbrace - 1) & lbrace); if (lnum <= rnum) return …; rbrace &= rbrace - 1; rnum++ }
    lnum = last_lnum + popcount(lbrace)`, as a walk over the two masks -/
def braceWalk : List Bool → List Bool → Nat → Nat → Nat → Step (Nat × Nat) Nat
  | lb :: ls, rb :: rs, l, r, off =>
    if rb && l ≤ r then .done (off + 1)
    else braceWalk ls rs (if lb then l + 1 else l) (if rb then r + 1 else r) (off + 1)
  | _, _, l, r, _ => .cont (l, r)

def ctBlk (lc rc : UInt8) (st : CtSt) (off : Nat) (bs : Bytes) : Step CtSt Nat :=
  let e := escMask st.cr bs
  let iq := prefixXor st.inq (List.zipWith (fun b esc => b == 34 && !esc) bs e.1)
  let lb := List.zipWith (fun b i => b == lc && !i) bs iq.1
  let rb := List.zipWith (fun b i => b == rc && !i) bs iq.1
  match braceWalk lb rb st.lnum st.rnum off with
  | .done p => .done p
  | .cont (l, r) => .cont { inq := iq.2, cr := e.2, lnum := l, rnum := r }

/-- native/utils.h:22 -/
def crossPage (a n : Nat) : Bool := a % 4096 > 4096 - n

/-- the last, partial block (scanning.h:1476): `nb <= 0` ⇒ EOF; otherwise 64 bytes are loaded from `s` - an
    INTENTIONAL over-read that stays inside the page - unless that would cross a page, in which case the `nb`
    bytes are copied into a zeroed buffer; a closing brace found behind the end is EOF.  `none` inside = -ERR_EOF. -/
def ctTail (base : Nat) (lc rc : UInt8) (rd : Rd) (len : Nat) (st : CtSt) (off : Nat) : Option (Option Nat) :=
  if len ≤ off then some none
  else
    let nb := len - off
    let blk := if crossPage (base + off) 64 then (loadW rd nb off).map (· ++ List.replicate (64 - nb) 0)
               else loadW rd 64 off
    match blk with
    | none => none
    | some bs =>
      match ctBlk lc rc st off bs with
      | .done p => if p > len then some none else some (some p)
      | .cont _ => some none

/-- results as `Option Nat` (`none` = -ERR_EOF) -/
def ctStepO (lc rc : UInt8) (st : CtSt) (off : Nat) (b : UInt8) : Step CtSt (Option Nat) :=
  match ctStep lc rc st off b with
  | .done p => .done (some p)
  | .cont s => .cont s

def ctBlkO (lc rc : UInt8) (st : CtSt) (off : Nat) (bs : Bytes) : Step CtSt (Option Nat) :=
  match ctBlk lc rc st off bs with
  | .done p => .done (some p)
  | .cont s => .cont s

def ctFastScan (base : Nat) (lc rc : UInt8) : Scan CtSt (Option Nat) where
  blk := ctBlkO lc rc
  tail := ctTail base lc rc

/-- the scalar twin of the whole routine: byte by byte, no load behind the end -/
def ctScalar (lc rc : UInt8) (rd : Rd) (len : Nat) (st : CtSt) (off : Nat) : Option (Option Nat) :=
  scalarLoop (ctStepO lc rc) (fun _ _ => none) rd len st off

def ctScalarScan (lc rc : UInt8) : Scan CtSt (Option Nat) where
  blk := ctBlkO lc rc
  tail := ctScalar lc rc

/-- `skip_container_fast(src, p, lc, rc)` with `*p` just behind the opening brace; 64-byte rounds in both builds -/
def skipContainerFast (base : Nat) (lc rc : UInt8) (rd : Rd) (len p : Nat) : Option (Option Nat) :=
  (ctFastScan base lc rc).run rd len [64] ⟨false, false, 0, 0⟩ p

/-! ### numbers: do_skip_number (native/scanning.h:1025), skip_number_fast (:1401) -/

structure NumSt where
  di : Int      -- index of the decimal point, -1 = none yet (relative to the first digit)
  ei : Int      -- exponent letter
  si : Int      -- sign
  deriving DecidableEq, Repr

/-- `check_index:` (scanning.h:1196) with `n = sp - ss` -/
def checkIndex (st : NumSt) (n : Int) : Int :=
  if st.di == 0 || st.si == 0 || st.ei == 0 then -1
  else if st.di == n - 1 || st.si == n - 1 || st.ei == n - 1 then -n
  else if st.si > 0 && st.ei != st.si - 1 then -st.si - 1
  else if st.di ≥ 0 && st.ei ≥ 0 && st.di > st.ei - 1 then -st.di - 1
  else if st.di ≥ 0 && st.ei ≥ 0 && st.di == st.ei - 1 then -st.ei - 1
  else n

def isDigit (c : UInt8) : Bool := c ≥ 48 && c ≤ 57
def isDot (c : UInt8) : Bool := c == 46
def isExp (c : UInt8) : Bool := c == 101 || c == 69
def isSign (c : UInt8) : Bool := c == 43 || c == 45
def isNumCh (c : UInt8) : Bool := isDigit c || isDot c || isExp c || isSign c

/-- `check_sidx(iv)`: `if (iv == -1) iv = sp - ss - 1; else return -(sp - ss);` (after `*sp++`) -/
def sidx (iv : Int) (off : Nat) : Int ⊕ Int :=
  if iv == -1 then .inl off else .inr (-(off + 1 : Int))

/-- scalar tail (scanning.h:1172) -/
def numStep (st : NumSt) (off : Nat) (b : UInt8) : Step NumSt Int :=
  if isDigit b then .cont st
  else if isDot b then (match sidx st.di off with | .inl v => .cont { st with di := v } | .inr r => .done r)
  else if isExp b then (match sidx st.ei off with | .inl v => .cont { st with ei := v } | .inr r => .done r)
  else if isSign b then (match sidx st.si off with | .inl v => .cont { st with si := v } | .inr r => .done r)
  else .done (checkIndex st off)

/-- index of the second set bit: `ctz(mv & (mv - 1))` -/
def second : List Bool → Option Nat
  | [] => none
  | true :: r => (ctz r).map (· + 1)
  | false :: r => (second r).map (· + 1)

/-- `check_vidx(iv, mv)` -/
def vidx (iv : Int) (mv : List Bool) (off : Nat) : Int ⊕ Int :=
  match ctz mv with
  | none => .inl iv
  | some k => if iv == -1 then .inl (off + k : Nat) else .inr (-(off + k + 1 : Int))

/-- `i = ctz(~mr | 1 << W)`: index of the first byte that is not a number character, `W` if there is none -/
def numCut (bs : Bytes) : Nat :=
  match ctz (bs.map fun b => !isNumCh b) with
  | some i => i
  | none => bs.length

/-- one 32- or 16-byte round (scanning.h:1052-1104 / 1121-1168): the masks are cut at the first non-number
    character, then a second `.` in the block, a second exponent letter, a second sign are reported IN THAT ORDER,
    then clashes with earlier blocks - the scalar code reports whichever comes first in the text -/
def numBlk (st : NumSt) (off : Nat) (bs : Bytes) : Step NumSt Int :=
  let i := numCut bs
  let md := (bs.map isDot).take i
  let me := (bs.map isExp).take i
  let ms := (bs.map isSign).take i
  match second md with
  | some k => .done (-(off + k + 1 : Int))
  | none =>
  match second me with
  | some k => .done (-(off + k + 1 : Int))
  | none =>
  match second ms with
  | some k => .done (-(off + k + 1 : Int))
  | none =>
  match vidx st.di md off with
  | .inr r => .done r
  | .inl di =>
  match vidx st.ei me off with
  | .inr r => .done r
  | .inl ei =>
  match vidx st.si ms off with
  | .inr r => .done r
  | .inl si =>
    let st' : NumSt := ⟨di, ei, si⟩
    if i != bs.length then .done (checkIndex st' (off + i : Nat)) else .cont st'

def numScan : Scan NumSt Int where
  blk := numBlk
  tail := scalarLoop numStep (fun st off => checkIndex st off)

/-- `do_skip_number(sp, nb)`: the reader starts at the first digit.  AVX2: `Ws = [32, 16]`, SSE: `[16]`.
    `sp[1]` is only read when `nb != 1`. -/
def doSkipNumber (Ws : List Nat) (rd : Rd) (nb : Nat) : Option Int :=
  if nb = 0 then some (-1)
  else
    match rd 0 with
    | none => none
    | some c0 =>
      let zero : Option Bool :=
        if c0 == 48 then
          (if nb = 1 then some true
           else match rd 1 with
             | none => none
             | some c1 => some (c1 != 46 && c1 != 101 && c1 != 69))
        else some false
      match zero with
      | none => none
      | some true => some 1
      | some false => numScan.run rd nb Ws ⟨-1, -1, -1⟩ 0

/-- what a caller of do_skip_number sees apart from the error position: rejected (`none`) or the accepted length -/
def accept (r : Int) : Option Int := if r < 0 then none else some r

/-- the reader moved forward by `k` bytes (`src->buf + k`) -/
def shift (rd : Rd) (k : Nat) : Rd := fun i => rd (k + i)

/-- `backward_space_chars` (scanning.h:1394) -/
def backSpaces (rd : Rd) : Nat → Option Nat
  | 0 => some 0
  | p + 1 =>
    match rd p with
    | none => none
    | some b => if isSpace b then backSpaces rd p else some (p + 1)

def isStructural (c : UInt8) : Bool := c == 125 || c == 93 || c == 44

/-- `skip_number_fast`: the vector rounds stop at `}` `]` `,` and walk back over spaces, the scalar tail stops at a
    space as well; result = new `*p` (`true` = found by a vector round, spaces still to be walked back) -/
def nfScan : Scan Unit (Nat × Bool) where
  blk := fun _ off bs =>
    match ctz (bs.map isStructural) with
    | some i => .done (off + i, true)
    | none => .cont ()
  tail := scalarLoop (fun _ off b => if isStructural b || isSpace b then .done (off, false) else .cont ())
            (fun _ off => (off, false))

def skipNumberFast (Ws : List Nat) (rd : Rd) (len p : Nat) : Option Nat :=
  match nfScan.run rd len Ws () p with
  | none => none
  | some (q, true) => backSpaces rd q
  | some (q, false) => some q

/-! ### the two over-reads of the C as written -/

inductive NumHead where
  | eof                       -- -ERR_EOF
  | inval (p : Nat)           -- -ERR_INVAL at `p`
  | zero (p : Nat)            -- the early return of `check_leading_zero` (value 0, `dv = +0.0`)
  | more (i : Nat)            -- goes on with the digit loop at `i` (for `-0` this path ends in `dv = -0.0`)
  deriving DecidableEq, Repr

/-- head of `vnumber` / `vsigned` / `vunsigned` (scanning.h:906-912, macros :711-740):
    `check_eof; check_sign; check_digit; check_leading_zero`.  The last macro is
    `s[i] == '0' && (i >= n || (s[i+1] != '.' && s[i+1] != 'e' && s[i+1] != 'E'))`: `i < n` is known there, so
    `s[i+1]` is read even when `i + 1 = n` (DESIGN §8 #1). -/
def vnumDigitAt (rd : Rd) (len i : Nat) : Option NumHead :=
  if i ≥ len then some .eof                 -- check_eof
  else
    match rd i with
    | none => none
    | some d =>
      if d < 48 || d > 57 then some (.inval i)          -- check_digit
      else if d == 48 then
        (match rd (i + 1) with              -- check_leading_zero: unguarded
         | none => none
         | some e => if e != 46 && e != 101 && e != 69 then some (.zero (i + 1)) else some (.more i))
      else some (.more i)

def vnumberHead (rd : Rd) (len p : Nat) : Option NumHead :=
  if p ≥ len then some .eof
  else
    match rd p with
    | none => none
    | some c => if c == 45 then vnumDigitAt rd len (p + 1) else vnumDigitAt rd len p

/-- `advance_dword(src, p, dec, ret, val)` (scanning.h:114): `if (*p > src->len + dec - 4)` is evaluated in `size_t`;
    for `len + dec < 4` the right-hand side wraps around and the test is false, so the 4-byte load at
    `buf + *p - dec` runs past the end.  Result `(ok, *p)`; `lit` = the four bytes of `val`, lowest first. -/
def advanceDword (rd : Rd) (len p dec : Nat) (lit : Bytes) : Option (Option Bool × Nat) :=
  if len + dec ≥ 4 && p > len + dec - 4 then some (none, len)          -- -ERR_EOF
  else
    match loadW rd 4 (p - dec) with
    | none => none
    | some w =>
      if w == lit then some (some true, p + 4 - dec)
      else
        -- `for (i = 0; buf[*p] == (val & 0xff) && i < 4; i++, ++*p) val >>= 8;`  (inside the 4 bytes just loaded)
        let k := (List.zipWith (fun a b => a == b) w lit).takeWhile id |>.length
        some (some false, p - dec + k)                                 -- -ERR_INVAL

/-! ### skip_one_fast (native/scanning.h:1544) and the string / number / literal cases of skip_one -/

structure Widths where
  lspace : List Nat
  str : List Nat
  strFast : List Nat
  num : List Nat
  find : List Nat
  deriving Repr

/-- `-mavx2` build (internal/native/avx2) -/
def Widths.avx2 : Widths := ⟨[32], [64, 32], [32], [32, 16], [32, 16]⟩
/-- SSE build (internal/native/sse) -/
def Widths.sse : Widths := ⟨[], [64, 32], [32], [16], [16]⟩

inductive SkipRes where
  | ok (start p : Nat)
  | err (code : Nat) (p : Nat)      -- 1 = ERR_EOF, 2 = ERR_INVAL
  deriving DecidableEq, Repr

/-- `skip_one_fast_1` -/
def skipOneFast (w : Widths) (base : Nat) (rd : Rd) (len p : Nat) : Option SkipRes :=
  match advanceNs w.lspace rd len p with
  | none => none
  | some (c, p1) =>
    let vi := p1 - 1
    if c == 91 || c == 123 then
      let rc : UInt8 := if c == 91 then 93 else 125
      match skipContainerFast base c rc rd len p1 with
      | none => none
      | some (some q) => some (.ok vi q)
      | some none => some (.err 1 len)
    else if c == 34 then
      match skipStringFast w.strFast rd len p1 with
      | none => none
      | some (some q) => some (.ok vi q)
      | some none => some (.err 1 p1)
    else if c == 45 || isDigit c then
      match skipNumberFast w.num rd len p1 with
      | none => none
      | some q => some (.ok vi q)
    else if c == 116 || c == 110 then
      if p1 + 3 ≤ len then some (.ok vi (p1 + 3)) else some (.err 1 p1)
    else if c == 102 then
      if p1 + 4 ≤ len then some (.ok vi (p1 + 4)) else some (.err 1 p1)
    else if c == 0 then some (.err 1 p1)
    else some (.err 2 (p1 - 1))

/-- `skip_one` (flags = 0) when the value is a string, a number or a literal (scanning.h:1826-1869:
    `skip_string_1`, `skip_positive_1`, `skip_negative_1`, `advance_dword`); `none` inside = a container
    (the validating state machine is not part of this core) -/
def skipOneScalarValue (ch0 : UInt8) (w : Widths) (rd : Rd) (len p : Nat) : Option (Option SkipRes) :=
  match advanceNs w.lspace rd len p with
  | none => none
  | some (c, p1) =>
    let vi := p1 - 1
    if c == 0 then some (some (.err 1 p1))
    else if c == 34 then
      match advStr ch0 w.str rd len p1 with
      | none => none
      | some (.found e _) => some (some (.ok vi e))
      | some .eof => some (some (.err 1 len))
    else if isDigit c then
      -- skip_positive_1: i = *p - 1; r = do_skip_number(buf + i, len - i)
      match doSkipNumber w.num (shift rd vi) (len - vi) with
      | none => none
      | some r => if r < 0 then some (some (.err 2 (Int.toNat (p1 - r - 2)))) else some (some (.ok vi (Int.toNat (p1 + r - 1))))
    else if c == 45 then
      -- skip_negative_1
      if len ≤ p1 then some (some (.err 2 len))
      else
        match rd p1 with
        | none => none
        | some d =>
          if !isDigit d then some (some (.err 2 p1))
          else
            match doSkipNumber w.num (shift rd p1) (len - p1) with
            | none => none
            | some r => if r < 0 then some (some (.err 2 (Int.toNat (p1 - r - 1)))) else some (some (.ok vi (Int.toNat (p1 + r))))
    else if c == 110 || c == 116 || c == 102 then
      let dec := if c == 102 then 0 else 1
      let lit : Bytes := if c == 110 then [110, 117, 108, 108] else if c == 116 then [116, 114, 117, 101] else [97, 108, 115, 101]
      match advanceDword rd len p1 dec lit with
      | none => none
      | some (some true, q) => some (some (.ok vi q))
      | some (some false, q) => some (some (.err 2 q))
      | some (none, q) => some (some (.err 1 q))
    else if c == 91 || c == 123 then some none
    else some (some (.err 2 p1))

end SonicSpec.Mem
