/-
  Core F (search part), executable model for property C14.  Core Lean only.

  * Specification: `locateR : JVal → Path → Res JVal` on the parsed tree (first occurrence of a
    duplicated key, keys compared after decoding their escapes, indexes address arrays only).
  * Implementation model over BYTES (never over the tree): the native path searcher
    `native/get_by_path.c` with the non-validating skipper `skip_one_fast` of
    `native/scanning.h` (Go twin: `ast/decode.go` skipValueFast/skipPair/skipString and
    `ast/parser.go` searchKey/searchIndex), returning the raw slice of the located value.
  * The `ast.Preorder` traverser (`ast/visitor.go`) as a byte-level recursive descent that
    emits events, and `flatten`, the event list of a tree.

  All scanners work on suffixes of the input (`Bytes = List UInt8`); a position of the Go/C
  code is the suffix that starts there.  Loops are bounded by one global fuel (document
  length + 1: every iteration consumes at least one byte).
-/
import SonicSpec.Model.JsonTree
import SonicSpec.Generated.Consts
namespace SonicSpec.Search
open SonicSpec SonicSpec.Json

/-! ## paths and results -/

inductive PathElem where
  | key (k : Bytes)      -- a Go `string` path argument (decoded key)
  | idx (i : Int)        -- a Go `int` path argument
deriving Repr, DecidableEq, Inhabited

abbrev Path := List PathElem

/-- outcome of a search: the value, or one of the error classes of `get_by_path.c`
    (`ERR_NOT_FOUND`, `ERR_INVAL`, `ERR_EOF`, `ERR_UNSUPPORT_TYPE` for a negative index) -/
inductive Res (α : Type) where
  | found (a : α)
  | notFound
  | inval
  | eof
  | badPath
deriving Repr, DecidableEq, Inhabited

namespace Res
def map {α β : Type} (f : α → β) : Res α → Res β
  | .found a => .found (f a)
  | .notFound => .notFound
  | .inval => .inval
  | .eof => .eof
  | .badPath => .badPath

def toOption {α : Type} : Res α → Option α
  | .found a => some a
  | _ => none
end Res

/-! ## string escapes (what a key / string value denotes) -/

def hexv (c : UInt8) : Nat :=
  if c ≥ 48 && c ≤ 57 then c.toNat - 48
  else if c ≥ 97 && c ≤ 102 then c.toNat - 87
  else if c ≥ 65 && c ≤ 70 then c.toNat - 55
  else 0

def hex4 (a b c d : UInt8) : Nat := ((hexv a * 16 + hexv b) * 16 + hexv c) * 16 + hexv d

/-- UTF-8 encoding of a scalar value -/
def utf8enc (cp : Nat) : Bytes :=
  if cp < 128 then [UInt8.ofNat cp]
  else if cp < 2048 then [UInt8.ofNat (192 + cp / 64), UInt8.ofNat (128 + cp % 64)]
  else if cp < 65536 then
    [UInt8.ofNat (224 + cp / 4096), UInt8.ofNat (128 + cp / 64 % 64), UInt8.ofNat (128 + cp % 64)]
  else
    [UInt8.ofNat (240 + cp / 262144), UInt8.ofNat (128 + cp / 4096 % 64),
     UInt8.ofNat (128 + cp / 64 % 64), UInt8.ofNat (128 + cp % 64)]

/-- first pass over a raw string body: plain bytes and `\uXXXX` code units -/
inductive CU where
  | b (x : UInt8)
  | u (n : Nat)
deriving Repr

def codeUnits : Bytes → List CU
  | [] => []
  | 92 :: 117 :: a :: b :: c :: d :: r =>
    if isHex a && isHex b && isHex c && isHex d then .u (hex4 a b c d) :: codeUnits r
    else .b 92 :: .b 117 :: codeUnits (a :: b :: c :: d :: r)
  | 92 :: e :: r =>
    (if e == 98 then CU.b 8 else if e == 102 then .b 12 else if e == 110 then .b 10
     else if e == 114 then .b 13 else if e == 116 then .b 9 else .b e) :: codeUnits r
  | c :: r => .b c :: codeUnits r

def replacement : Bytes := [239, 191, 189]

/-- second pass: surrogate pairs combine, a lone surrogate becomes U+FFFD (as encoding/json
    and `unquote.String` do).  The first argument is a pending high surrogate. -/
def encodeUnits : Option Nat → List CU → Bytes
  | none, [] => []
  | some _, [] => replacement
  | none, .b x :: r => x :: encodeUnits none r
  | some _, .b x :: r => replacement ++ x :: encodeUnits none r
  | none, .u n :: r =>
    if 55296 ≤ n ∧ n < 56320 then encodeUnits (some n) r
    else if 56320 ≤ n ∧ n < 57344 then replacement ++ encodeUnits none r
    else utf8enc n ++ encodeUnits none r
  | some hi, .u n :: r =>
    if 56320 ≤ n ∧ n < 57344 then
      utf8enc (65536 + (hi - 55296) * 1024 + (n - 56320)) ++ encodeUnits none r
    else if 55296 ≤ n ∧ n < 56320 then replacement ++ encodeUnits (some n) r
    else replacement ++ utf8enc n ++ encodeUnits none r

/-- the byte string a raw (still escaped) string body denotes -/
def unescapeKey (body : Bytes) : Bytes := encodeUnits none (codeUnits body)

/-! ## specification on the tree -/

/-- first member whose decoded key equals `k` -/
def lookupKey (k : Bytes) : List (Bytes × JVal) → Option JVal
  | [] => none
  | (kb, v) :: rest => if unescapeKey kb = k then some v else lookupKey k rest

/-- the value at a path, with the error class the searcher reports otherwise:
    missing key / index past the end ⇒ `notFound`; key on a non-object or index on a
    non-array ⇒ `inval`; negative index on an array ⇒ `badPath` -/
def locateR : JVal → Path → Res JVal
  | v, [] => .found v
  | .obj kvs, .key k :: p =>
    match lookupKey k kvs with
    | some w => locateR w p
    | none => .notFound
  | .arr xs, .idx i :: p =>
    if i < 0 then .badPath
    else match xs[i.toNat]? with
      | some w => locateR w p
      | none => .notFound
  | _, _ :: _ => .inval

/-- `locate d p`: the value encoding/json would find at `p` (first occurrence of a duplicated key) -/
def locate (v : JVal) (p : Path) : Option JVal := (locateR v p).toOption

/-! ## byte-level scanners of the fast skipper -/

/-- `advance_string_default` without validation / `skipString` (ast/decode.go:286): after the
    opening quote, a backslash hides the next byte, the first bare quote ends the string.
    Returns (raw body, rest after the closing quote). -/
def strEnd : Bytes → Option (Bytes × Bytes)
  | [] => none
  | c :: r =>
    if c == 92 then
      match r with
      | [] => none
      | e :: r' => (strEnd r').map fun (b, t) => (92 :: e :: b, t)
    else if c == 34 then some ([], r)
    else (strEnd r).map fun (b, t) => (c :: b, t)

/-- `skip_container_fast` (native/scanning.h:1438) / `skipPair` (ast/decode.go:321), the scan
    after the opening bracket: only quotes, backslashes and the container's own bracket pair
    `lc`/`rc` are looked at.  `d` = number of unclosed `lc` (starts at 1), `q` = inside quotes.
    Returns the rest after the bracket that closes depth 1. -/
def pairScan (lc rc : UInt8) : Nat → Bool → Bytes → Option Bytes
  | _, _, [] => none
  | d, q, c :: r =>
    if c == 92 then
      match r with
      | [] => none
      | _ :: r' => pairScan lc rc d q r'
    else if c == 34 then pairScan lc rc d (!q) r
    else if q then pairScan lc rc d q r
    else if c == lc then pairScan lc rc (d + 1) q r
    else if c == rc then (if d ≤ 1 then some r else pairScan lc rc (d - 1) q r)
    else pairScan lc rc d q r

/-- end of a number for the fast skipper (`skip_number_fast`, scalar loop, scanning.h:1427):
    runs to the next `}` `]` `,` or white space, no validation -/
def isNumStop (c : UInt8) : Bool := c == 125 || c == 93 || c == 44 || isSpace c

def numEnd : Bytes → Bytes
  | [] => []
  | c :: r => if isNumStop c then c :: r else numEnd r

/-- `skip_one_fast_1` (scanning.h:1544) / `skipValueFast` (ast/decode.go:362):
    returns (suffix at the first byte of the value, rest after the value) -/
def skipFast (s : Bytes) : Option (Bytes × Bytes) :=
  match skipWs s with
  | [] => none
  | c :: t =>
    if c == 91 then (pairScan 91 93 1 false t).map fun r => (c :: t, r)
    else if c == 123 then (pairScan 123 125 1 false t).map fun r => (c :: t, r)
    else if c == 34 then (strEnd t).map fun (_, r) => (c :: t, r)
    else if c == 116 || c == 110 then (if t.length ≥ 3 then some (c :: t, t.drop 3) else none)
    else if c == 102 then (if t.length ≥ 4 then some (c :: t, t.drop 4) else none)
    else if c == 45 || isDigit c then some (c :: t, numEnd t)
    else none

/-- validating skip (`skip_one_1` with its state machine) used for the located value when
    `ValidateJSON` is set: modelled by the strict grammar of `Json.parseVal` -/
def skipStrict (fuel : Nat) (s : Bytes) : Option (Bytes × Bytes) :=
  (parseVal fuel (skipWs s)).map fun (_, r) => (skipWs s, r)

/-! ## key comparison -/

def hasBackslash : Bytes → Bool
  | [] => false
  | c :: r => c == 92 || hasBackslash r

/-- result of `match_key`: matched, not matched, or a (negative) error code of `unescape` -/
inductive KeyCmp where
  | eq
  | ne
  | err
deriving Repr, DecidableEq, Inhabited

/-- `unescape` (native/parsing.h:625), called at a backslash; the argument is what FOLLOWS the
    backslash.  Returns the decoded bytes (1..4) and the rest, `none` for each of its error exits:
    unknown escape letter (`_UnquoteTab` = 0), fewer than four hex digits, a low surrogate first,
    a high surrogate that is not directly followed by `\uDC00..\uDFFF`. -/
def unescapeOne : Bytes → Option (Bytes × Bytes)
  | [] => none
  | 117 :: a :: b :: c :: d :: r =>
    if isHex a && isHex b && isHex c && isHex d then
      let r0 := hex4 a b c d
      if r0 < 55296 ∨ r0 > 57343 then some (utf8enc r0, r)
      else if r0 > 56319 then none
      else
        match r with
        | 92 :: 117 :: e :: f :: g :: h :: r' =>
          if isHex e && isHex f && isHex g && isHex h then
            let r1 := hex4 e f g h
            if r1 < 56320 ∨ r1 > 57343 then none
            else some (utf8enc (65536 + (r0 - 55296) * 1024 + (r1 - 56320)), r')
          else none
        | _ => none
    else none
  | e :: r =>
    if e == 34 || e == 92 || e == 47 then some ([e], r)
    else if e == 98 then some ([8], r)
    else if e == 102 then some ([12], r)
    else if e == 110 then some ([10], r)
    else if e == 114 then some ([13], r)
    else if e == 116 then some ([9], r)
    else none

/-- the escaped-key loop of `match_key` (scanning.h:1663): walk the key literal and the wanted key
    together; a plain byte must equal the next key byte; an escape is decoded into a small buffer
    which must be a prefix of what is left of the key; the first mismatch ends the comparison (what
    follows in the literal is not even looked at); an undecodable escape that is REACHED is an
    error.  At the end both must be exhausted. -/
def matchLoop : Nat → Bytes → Bytes → KeyCmp
  | 0, _, _ => .err
  | _ + 1, [], k => if k.isEmpty then .eq else .ne
  | _ + 1, _ :: _, [] => .ne
  | n + 1, c :: rest, k0 :: k' =>
    if c == 92 then
      match unescapeOne rest with
      | none => .err
      | some (dec, rest') =>
        if dec.isPrefixOf (k0 :: k') then matchLoop n rest' ((k0 :: k').drop dec.length) else .ne
    else if c == k0 then matchLoop n rest k'
    else .ne

/-- `match_key` (scanning.h:1631): a key literal without escapes is compared with one memcmp
    (lengths first); otherwise the piecewise loop -/
def matchKey (body k : Bytes) : KeyCmp :=
  if hasBackslash body then matchLoop (body.length + 1) body k
  else if body == k then .eq else .ne

/-- a key literal every escape of which `unescape` can decode (on a strictly valid string this
    only excludes lone / wrongly ordered surrogate escapes) -/
def keyWF : Nat → Bytes → Bool
  | 0, _ => false
  | _ + 1, [] => true
  | n + 1, c :: rest =>
    if c == 92 then
      match unescapeOne rest with
      | none => false
      | some (_, rest') => keyWF n rest'
    else keyWF n rest

mutual
/-- every object key of the value is decodable by `unescape` -/
def keysWF : JVal → Bool
  | .arr xs => keysWFElems xs
  | .obj kvs => keysWFMembers kvs
  | _ => true
def keysWFElems : List JVal → Bool
  | [] => true
  | x :: xs => keysWF x && keysWFElems xs
def keysWFMembers : List (Bytes × JVal) → Bool
  | [] => true
  | (k, v) :: kvs => keyWF (k.length + 1) k && keysWF v && keysWFMembers kvs
end

/-! ## the path searcher (native/get_by_path.c) -/

/-- `skip_in_obj` loop: `s` is positioned after `{` or after a `,`; on a match the result is
    the suffix after the `:` of the matching member -/
def searchObj (k : Bytes) : Nat → Bytes → Res Bytes
  | 0, _ => .eof
  | n + 1, s =>
    match skipWs s with
    | [] => .eof
    | c :: t =>
      if c == 125 then .notFound
      else if c != 34 then .inval
      else match strEnd t with
        | none => .eof
        | some (body, r1) =>
          match skipWs r1 with
          | [] => .eof
          | c1 :: r2 =>
            if c1 != 58 then .inval
            else match matchKey body k with
            | .eq => .found r2
            | .err => .inval       -- the error code of `unescape` is returned as it is (a syntax error)
            | .ne =>
              match skipFast r2 with
              | none => .inval
              | some (_, r3) =>
                match skipWs r3 with
                | [] => .eof
                | c3 :: r4 =>
                  if c3 == 125 then .notFound
                  else if c3 == 44 then searchObj k n r4
                  else .inval

/-- `skip_in_arr` loop: skip `i` elements; the result is the suffix at the wanted element -/
def searchArr : Nat → Bytes → Res Bytes
  | 0, s => .found s
  | i + 1, s =>
    match skipFast s with
    | none => .inval
    | some (_, r) =>
      match skipWs r with
      | [] => .eof
      | c :: r' =>
        if c == 93 then .notFound
        else if c == 44 then searchArr i r'
        else .inval

/-- `get_by_path`: returns (suffix at the located value, rest after it) -/
def getByPath (validate : Bool) (fuel : Nat) : Path → Bytes → Res (Bytes × Bytes)
  | [], s =>
    match (if validate then skipStrict fuel s else skipFast s) with
    | some x => .found x
    | none => .inval
  | .key k :: p, s =>
    match skipWs s with
    | [] => .eof
    | c :: t =>
      if c != 123 then .inval
      else match searchObj k fuel t with
        | .found r => getByPath validate fuel p r
        | .notFound => .notFound
        | .inval => .inval
        | .eof => .eof
        | .badPath => .badPath
  | .idx i :: p, s =>
    match skipWs s with
    | [] => .eof
    | c :: t =>
      if c != 91 then .inval
      else if i < 0 then .badPath
      else match skipWs t with
        | [] => .eof
        | c' :: t' =>
          if c' == 93 then .notFound
          else match searchArr i.toNat (c' :: t') with
            | .found r => getByPath validate fuel p r
            | .notFound => .notFound
            | .inval => .inval
            | .eof => .eof
            | .badPath => .badPath

/-- the bytes between the start of the located value and the rest -/
def rawOf (x : Bytes × Bytes) : Bytes := x.1.take (x.1.length - x.2.length)

/-- `ast.SearchOptions` -/
structure Options where
  validateJSON : Bool := true
  copyReturn : Bool := false
  concurrentRead : Bool := false
deriving Repr, DecidableEq

/-- `Searcher.getByPath` (ast/search.go:69): the raw text of the located value.  `CopyReturn`
    copies the same bytes, `ConcurrentRead` adds a lock to the node: neither reaches the result. -/
def search (o : Options) (s : Bytes) (p : Path) : Res Bytes :=
  (getByPath o.validateJSON (s.length + 1) p s).map rawOf

/-! ## Preorder (ast/visitor.go) -/

inductive Event where
  | null
  | bool (b : Bool)
  | str (decoded : Bytes)
  | num (lit : Bytes)
  | objBegin
  | key (decoded : Bytes)
  | objEnd
  | arrBegin
  | arrEnd
deriving Repr, DecidableEq

mutual
/-- the event list of a tree (reference flattening) -/
def flatten : JVal → List Event
  | .null => [.null]
  | .bool b => [.bool b]
  | .num l => [.num l]
  | .str b => [.str (unescapeKey b)]
  | .arr xs => .arrBegin :: (flattenElems xs ++ [.arrEnd])
  | .obj kvs => .objBegin :: (flattenMembers kvs ++ [.objEnd])
def flattenElems : List JVal → List Event
  | [] => []
  | x :: xs => flatten x ++ flattenElems xs
def flattenMembers : List (Bytes × JVal) → List Event
  | [] => []
  | (k, v) :: kvs => .key (unescapeKey k) :: (flatten v ++ flattenMembers kvs)
end

mutual
/-- `traverser.decodeValue` (visitor.go:148): the scalar decoding of `native.Value` is modelled
    by the strict scanners of `Json` -/
def travVal : Nat → Bytes → Option (List Event × Bytes)
  | 0, _ => none
  | n+1, s =>
    match s with
    | 110 :: 117 :: 108 :: 108 :: r => some ([.null], r)
    | 116 :: 114 :: 117 :: 101 :: r => some ([.bool true], r)
    | 102 :: 97 :: 108 :: 115 :: 101 :: r => some ([.bool false], r)
    | 34 :: r => (scanString r).map fun (b, t) => ([.str (unescapeKey b)], t)
    | 91 :: r =>
      -- decodeArray (visitor.go:175): OnArrayBegin, lspace, empty check, element loop
      match skipWs r with
      | 93 :: t => some ([.arrBegin, .arrEnd], t)
      | r' => (travElems n r').map fun (es, t) => (.arrBegin :: es, t)
    | 123 :: r =>
      match skipWs r with
      | 125 :: t => some ([.objBegin, .objEnd], t)
      | r' => (travMembers n r').map fun (es, t) => (.objBegin :: es, t)
    | _ => (scanNumber s).map fun (l, t) => ([.num l], t)
/-- element loop of `traverser.decodeArray`; the closing `OnArrayEnd` is emitted here -/
def travElems : Nat → Bytes → Option (List Event × Bytes)
  | 0, _ => none
  | n+1, s =>
    match travVal n s with
    | none => none
    | some (ev, r) =>
      match skipWs r with
      | 44 :: t => (travElems n (skipWs t)).map fun (es, t') => (ev ++ es, t')
      | 93 :: t => some (ev ++ [.arrEnd], t)
      | _ => none
/-- pair loop of `traverser.decodeObject` (visitor.go:224) -/
def travMembers : Nat → Bytes → Option (List Event × Bytes)
  | 0, _ => none
  | n+1, s =>
    match s with
    | 34 :: r =>
      match scanString r with
      | none => none
      | some (k, r1) =>
        match skipWs r1 with
        | 58 :: r2 =>
          match travVal n (skipWs r2) with
          | none => none
          | some (ev, r3) =>
            match skipWs r3 with
            | 44 :: t => (travMembers n (skipWs t)).map fun (es, t') => (.key (unescapeKey k) :: (ev ++ es), t')
            | 125 :: t => some (.key (unescapeKey k) :: (ev ++ [.objEnd]), t)
            | _ => none
        | _ => none
    | _ => none
end

/-- `ast.Preorder(str, visitor, nil)`: the callbacks received, `none` when it returns an error.
    Like the Go function it does not look at what follows the first value. -/
def preorder (s : Bytes) : Option (List Event) :=
  (travVal (s.length + 1) (skipWs s)).map (·.1)

/-! ## Preorder with its nesting bound (ast/visitor.go:175/238 after commit 5627bad: `depth >=
    types.MAX_RECURSE` on entry of decodeArray/decodeObject gives ERR_RECURSE_EXCEED_MAX; the
    counter is restored on EVERY exit by a deferred decrement) -/

mutual
/-- real nesting depth of a value: number of containers on its deepest path -/
def depth : JVal → Nat
  | .arr xs => 1 + depthElems xs
  | .obj kvs => 1 + depthMembers kvs
  | _ => 0
def depthElems : List JVal → Nat
  | [] => 0
  | x :: xs => max (depth x) (depthElems xs)
def depthMembers : List (Bytes × JVal) → Nat
  | [] => 0
  | (_, v) :: kvs => max (depth v) (depthMembers kvs)
end

/-- outcome of the bounded traversal -/
inductive TRes (α : Type) where
  | ok (a : α)
  | syntax        -- any parsing error
  | tooDeep       -- ERR_RECURSE_EXCEED_MAX
deriving Repr, DecidableEq

mutual
/-- `traverser.decodeValue` with the depth counter: `k` containers are open, at most `L` may be -/
def travValD (L : Nat) : Nat → Nat → Bytes → TRes (List Event × Bytes)
  | 0, _, _ => .syntax
  | n+1, k, s =>
    match s with
    | 110 :: 117 :: 108 :: 108 :: r => .ok ([.null], r)
    | 116 :: 114 :: 117 :: 101 :: r => .ok ([.bool true], r)
    | 102 :: 97 :: 108 :: 115 :: 101 :: r => .ok ([.bool false], r)
    | 34 :: r =>
      match scanString r with
      | some (b, t) => .ok ([.str (unescapeKey b)], t)
      | none => .syntax
    | 91 :: r =>
      if k ≥ L then .tooDeep
      else match skipWs r with
        | 93 :: t => .ok ([.arrBegin, .arrEnd], t)
        | r' =>
          match travElemsD L n (k + 1) r' with
          | .ok (es, t) => .ok (.arrBegin :: es, t)
          | .syntax => .syntax
          | .tooDeep => .tooDeep
    | 123 :: r =>
      if k ≥ L then .tooDeep
      else match skipWs r with
        | 125 :: t => .ok ([.objBegin, .objEnd], t)
        | r' =>
          match travMembersD L n (k + 1) r' with
          | .ok (es, t) => .ok (.objBegin :: es, t)
          | .syntax => .syntax
          | .tooDeep => .tooDeep
    | _ =>
      match scanNumber s with
      | some (l, t) => .ok ([.num l], t)
      | none => .syntax
def travElemsD (L : Nat) : Nat → Nat → Bytes → TRes (List Event × Bytes)
  | 0, _, _ => .syntax
  | n+1, k, s =>
    match travValD L n k s with
    | .syntax => .syntax
    | .tooDeep => .tooDeep
    | .ok (ev, r) =>
      match skipWs r with
      | 44 :: t =>
        match travElemsD L n k (skipWs t) with
        | .ok (es, t') => .ok (ev ++ es, t')
        | .syntax => .syntax
        | .tooDeep => .tooDeep
      | 93 :: t => .ok (ev ++ [.arrEnd], t)
      | _ => .syntax
def travMembersD (L : Nat) : Nat → Nat → Bytes → TRes (List Event × Bytes)
  | 0, _, _ => .syntax
  | n+1, k, s =>
    match s with
    | 34 :: r =>
      match scanString r with
      | none => .syntax
      | some (key, r1) =>
        match skipWs r1 with
        | 58 :: r2 =>
          match travValD L n k (skipWs r2) with
          | .syntax => .syntax
          | .tooDeep => .tooDeep
          | .ok (ev, r3) =>
            match skipWs r3 with
            | 44 :: t =>
              match travMembersD L n k (skipWs t) with
              | .ok (es, t') => .ok (.key (unescapeKey key) :: (ev ++ es), t')
              | .syntax => .syntax
              | .tooDeep => .tooDeep
            | 125 :: t => .ok (.key (unescapeKey key) :: (ev ++ [.objEnd]), t)
            | _ => .syntax
        | _ => .syntax
    | _ => .syntax
end

/-- `types.MAX_RECURSE`, re-read from the source on every run -/
def maxRecurse : Nat := Gen.maxRecurse.toNat

/-- `ast.Preorder` with nesting bound `L` (the real one: `preorderD maxRecurse`) -/
def preorderD (L : Nat) (s : Bytes) : TRes (List Event) :=
  match travValD L (s.length + 1) 0 (skipWs s) with
  | .ok (es, _) => .ok es
  | .syntax => .syntax
  | .tooDeep => .tooDeep

/-! ## a visitor that answers VisitOPSkip for every container opened below level `lvl`
    (visitor.go:183/246: the traverser then skips the container with the fast skipper and calls
    only the matching End callback) -/

mutual
def flattenSkip (lvl : Nat) : Nat → JVal → List Event
  | k, .arr xs => if k ≥ lvl then [.arrBegin, .arrEnd] else .arrBegin :: (flattenSkipElems lvl (k + 1) xs ++ [.arrEnd])
  | k, .obj kvs => if k ≥ lvl then [.objBegin, .objEnd] else .objBegin :: (flattenSkipMembers lvl (k + 1) kvs ++ [.objEnd])
  | _, v => flatten v
def flattenSkipElems (lvl : Nat) : Nat → List JVal → List Event
  | _, [] => []
  | k, x :: xs => flattenSkip lvl k x ++ flattenSkipElems lvl k xs
def flattenSkipMembers (lvl : Nat) : Nat → List (Bytes × JVal) → List Event
  | _, [] => []
  | k, (key, v) :: kvs => .key (unescapeKey key) :: (flattenSkip lvl k v ++ flattenSkipMembers lvl k kvs)
end

/-! ## sequences of lookups on one node: in the model a lookup is a function of (document, path),
    so the answers of a sequence are the answers of its elements -/

def searchSeq (o : Options) (s : Bytes) (ps : List Path) : List (Res Bytes) := ps.map (search o s)

end SonicSpec.Search
