/-
  Core B (strings) - specification side of C20.  Core Lean only.

  These definitions do not mention the transliterated routines (`unquote`, `htmlEscape`, ...): they say
  what a JSON string literal is and what it denotes, so that the routines are not their own specification.
-/
import SonicSpec.Model.Str
namespace SonicSpec.Str

/-- body of a JSON string literal (RFC 8259 section 7, on bytes): unescaped bytes are neither control
    characters nor quote nor backslash; a backslash is followed by one of `"\/bfnrt` or by `u` and four
    hexadecimal digits -/
inductive LitBody : Bytes → Prop
  | nil : LitBody []
  | plain {c : UInt8} {t : Bytes} : 32 ≤ c → c ≠ 34 → c ≠ 92 → LitBody t → LitBody (c :: t)
  | simple {e v : UInt8} {t : Bytes} : simpleEsc e = some v → LitBody t → LitBody (92 :: e :: t)
  | uni {a b c d : UInt8} {r : Nat} {t : Bytes} : hex4 a b c d = some r → LitBody t →
      LitBody (92 :: 117 :: a :: b :: c :: d :: t)

/-- executable form of `LitBody` (used by the driver on the implementation's output) -/
def litBodyOk : Bytes → Bool
  | [] => true
  | c :: t =>
    if c == 92 then
      match t with
      | e :: t' =>
        if e == 117 then
          match t' with
          | a :: b :: c :: d :: t'' => (hex4 a b c d).isSome && litBodyOk t''
          | _ => false
        else (simpleEsc e).isSome && litBodyOk t'
      | [] => false
    else if c < 32 || c == 34 then false
    else litBodyOk t

def isSurr (r : Nat) : Prop := 55296 ≤ r ∧ r ≤ 57343
def isHi (r : Nat) : Prop := 55296 ≤ r ∧ r ≤ 56319
def isLo (r : Nat) : Prop := 56320 ≤ r ∧ r ≤ 57343

/-- the input continues with a `\uXXXX` escape of a low surrogate -/
def StartsLo (s : Bytes) : Prop :=
  ∃ a b c d r t, s = 92 :: 117 :: a :: b :: c :: d :: t ∧ hex4 a b c d = some r ∧ isLo r

/-- `Denotes unirep s o`: the string body `s` denotes the byte string `o`, the way encoding/json decodes
    (RFC 8259 section 7 plus the treatment of unpaired surrogates):
    * a byte other than a backslash denotes itself;
    * `\"  \\  \/  \b  \f  \n  \r  \t` denote one byte each;
    * `\uXXXX` of a non-surrogate denotes the UTF-8 encoding of that code point;
    * a high surrogate escape directly followed by a low surrogate escape denotes the UTF-8 encoding of the
      combined code point;
    * any other surrogate escape denotes U+FFFD when `unirep` (encoding/json, sonic's default) and has no
      denotation otherwise (sonic with UseUnicodeErrors);
    * nothing else has a denotation (malformed escapes). -/
inductive Denotes (unirep : Bool) : Bytes → Bytes → Prop
  | nil : Denotes unirep [] []
  | plain {c : UInt8} {s o : Bytes} : c ≠ 92 → Denotes unirep s o → Denotes unirep (c :: s) (c :: o)
  | simple {e v : UInt8} {s o : Bytes} : simpleEsc e = some v → Denotes unirep s o →
      Denotes unirep (92 :: e :: s) (v :: o)
  | bmp {a b c d : UInt8} {r : Nat} {s o : Bytes} : hex4 a b c d = some r → ¬ isSurr r → Denotes unirep s o →
      Denotes unirep (92 :: 117 :: a :: b :: c :: d :: s) (encodeScalar r ++ o)
  | pair {a b c d a' b' c' d' : UInt8} {hi lo : Nat} {s o : Bytes} :
      hex4 a b c d = some hi → isHi hi → hex4 a' b' c' d' = some lo → isLo lo → Denotes unirep s o →
      Denotes unirep (92 :: 117 :: a :: b :: c :: d :: 92 :: 117 :: a' :: b' :: c' :: d' :: s)
        (encodeScalar ((hi - 55296) * 1024 + (lo - 56320) + 65536) ++ o)
  | lone {a b c d : UInt8} {r : Nat} {s o : Bytes} : unirep = true → hex4 a b c d = some r → isSurr r →
      ¬ (isHi r ∧ StartsLo s) → Denotes unirep s o →
      Denotes unirep (92 :: 117 :: a :: b :: c :: d :: s) (fffd ++ o)

/-- the UTF-8 form of U+2028 or U+2029 occurs somewhere in `l` -/
def hasLSPS : Bytes → Bool
  | a :: b :: c :: t => (a == 226 && b == 128 && (c == 168 || c == 169)) || hasLSPS (b :: c :: t)
  | _ => false

end SonicSpec.Str
