/-
  Core A (shared part): JSON documents as trees, a strict RFC 8259 parser from bytes and a
  compact renderer.  Core Lean only.  String literals keep their *raw body* (the bytes between
  the quotes, escapes not decoded); clients decode with the string model when they need to.
  Number literals keep their text.  Objects are ordered pair lists (duplicates kept).
-/
import SonicSpec.Model.Hex
namespace SonicSpec.Json

inductive JVal where
  | null
  | bool (b : Bool)
  | num (lit : Bytes)
  | str (body : Bytes)
  | arr (xs : List JVal)
  | obj (kvs : List (Bytes × JVal))
deriving Repr, Inhabited

def isSpace (c : UInt8) : Bool := c == 32 || c == 9 || c == 10 || c == 13
def isDigit (c : UInt8) : Bool := c ≥ 48 && c ≤ 57
def isHex (c : UInt8) : Bool := isDigit c || (c ≥ 97 && c ≤ 102) || (c ≥ 65 && c ≤ 70)

def skipWs : Bytes → Bytes
  | c :: r => if isSpace c then skipWs r else c :: r
  | [] => []

theorem skipWs_length_le (s : Bytes) : (skipWs s).length ≤ s.length := by
  induction s with
  | nil => simp [skipWs]
  | cons c r ih => unfold skipWs; split <;> simp <;> omega

def takeDigits : Bytes → Bytes × Bytes
  | c :: r => if isDigit c then let (d, t) := takeDigits r; (c :: d, t) else ([], c :: r)
  | [] => ([], [])

/-- number literal per RFC 8259: `-? (0 | [1-9][0-9]*) (. [0-9]+)? ([eE] [+-]? [0-9]+)?`;
    returns (literal, rest) -/
def scanNumber (s : Bytes) : Option (Bytes × Bytes) :=
  let (sign, s1) : Bytes × Bytes := match s with
    | 45 :: r => ([45], r)
    | _ => ([], s)
  let intPart : Option (Bytes × Bytes) := match s1 with
    | 48 :: r => some ([48], r)
    | c :: r => if isDigit c then let (d, t) := takeDigits r; some (c :: d, t) else none
    | [] => none
  match intPart with
  | none => none
  | some (ip, s2) =>
    let frac : Option (Bytes × Bytes) := match s2 with
      | 46 :: r => let (d, t) := takeDigits r; if d.isEmpty then none else some (46 :: d, t)
      | _ => some ([], s2)
    match frac with
    | none => none
    | some (fp, s3) =>
      let ex : Option (Bytes × Bytes) := match s3 with
        | c :: r =>
          if c == 101 || c == 69 then
            let (sg, r2) : Bytes × Bytes := match r with
              | 43 :: r' => ([43], r')
              | 45 :: r' => ([45], r')
              | _ => ([], r)
            let (d, t) := takeDigits r2
            if d.isEmpty then none else some (c :: (sg ++ d), t)
          else some ([], s3)
        | [] => some ([], s3)
      match ex with
      | none => none
      | some (ep, s4) => some (sign ++ ip ++ fp ++ ep, s4)

/-- strict string body scanner (after the opening quote): escapes must be one of
    `" \ / b f n r t` or `uXXXX`, no raw control characters; UTF-8 is not checked
    (as encoding/json.Valid).  Returns (raw body, rest after the closing quote). -/
def scanString : Bytes → Option (Bytes × Bytes)
  | [] => none
  | 34 :: r => some ([], r)
  | 92 :: 117 :: a :: b :: c :: d :: r =>
    if isHex a && isHex b && isHex c && isHex d then
      (scanString r).map fun (body, t) => (92 :: 117 :: a :: b :: c :: d :: body, t)
    else none
  | 92 :: e :: r =>
    if e == 34 || e == 92 || e == 47 || e == 98 || e == 102 || e == 110 || e == 114 || e == 116 then
      (scanString r).map fun (body, t) => (92 :: e :: body, t)
    else none
  | c :: r => if c < 32 || c == 92 then none else (scanString r).map fun (body, t) => (c :: body, t)

mutual
/-- `parseVal fuel s` parses one value at the head of `s` (no leading space), returns the rest -/
def parseVal : Nat → Bytes → Option (JVal × Bytes)
  | 0, _ => none
  | n+1, s =>
    match s with
    | 110 :: 117 :: 108 :: 108 :: r => some (.null, r)
    | 116 :: 114 :: 117 :: 101 :: r => some (.bool true, r)
    | 102 :: 97 :: 108 :: 115 :: 101 :: r => some (.bool false, r)
    | 34 :: r => (scanString r).map fun (b, t) => (.str b, t)
    | 91 :: r =>
      match skipWs r with
      | 93 :: t => some (.arr [], t)
      | r' => (parseElems n r').map fun (xs, t) => (.arr xs, t)
    | 123 :: r =>
      match skipWs r with
      | 125 :: t => some (.obj [], t)
      | r' => (parseMembers n r').map fun (kvs, t) => (.obj kvs, t)
    | _ => (scanNumber s).map fun (l, t) => (.num l, t)
/-- elements after `[` (at least one), up to and including `]` -/
def parseElems : Nat → Bytes → Option (List JVal × Bytes)
  | 0, _ => none
  | n+1, s =>
    match parseVal n s with
    | none => none
    | some (v, r) =>
      match skipWs r with
      | 44 :: t => (parseElems n (skipWs t)).map fun (xs, t') => (v :: xs, t')
      | 93 :: t => some ([v], t)
      | _ => none
/-- members after `{` (at least one), up to and including `}` -/
def parseMembers : Nat → Bytes → Option (List (Bytes × JVal) × Bytes)
  | 0, _ => none
  | n+1, s =>
    match s with
    | 34 :: r =>
      match scanString r with
      | none => none
      | some (k, r1) =>
        match skipWs r1 with
        | 58 :: r2 =>
          match parseVal n (skipWs r2) with
          | none => none
          | some (v, r3) =>
            match skipWs r3 with
            | 44 :: t => (parseMembers n (skipWs t)).map fun (kvs, t') => ((k, v) :: kvs, t')
            | 125 :: t => some ([(k, v)], t)
            | _ => none
        | _ => none
    | _ => none
end

/-- a whole document: optional space, one value, optional space, end -/
def parseDoc (s : Bytes) : Option JVal :=
  match parseVal (s.length + 1) (skipWs s) with
  | some (v, r) => if (skipWs r).isEmpty then some v else none
  | none => none

mutual
def render : JVal → Bytes
  | .null => [110, 117, 108, 108]
  | .bool true => [116, 114, 117, 101]
  | .bool false => [102, 97, 108, 115, 101]
  | .num l => l
  | .str b => 34 :: (b ++ [34])
  | .arr xs => 91 :: (renderElems xs ++ [93])
  | .obj kvs => 123 :: (renderMembers kvs ++ [125])
def renderElems : List JVal → Bytes
  | [] => []
  | [x] => render x
  | x :: xs => render x ++ 44 :: renderElems xs
def renderMembers : List (Bytes × JVal) → Bytes
  | [] => []
  | [(k, v)] => 34 :: (k ++ 34 :: 58 :: render v)
  | (k, v) :: kvs => 34 :: (k ++ 34 :: 58 :: render v) ++ 44 :: renderMembers kvs
end

end SonicSpec.Json
