/-
  Core D, decoding half (C01 / C11): `Bind.decode` = the two-pass SPECIFICATION of Unmarshal, written to
  read like encoding/json (GOROOT/src/encoding/json/decode.go, go1.23): check the whole document for
  syntax first (`checkValid`, decode.go:102), then bind the parsed tree into the destination by kind
  (`d.value` / `d.array` / `d.object` / `d.literalStore`), saving the FIRST soft error and continuing
  (`d.saveError`), returning value and error at the end.  This is also the architecture of sonic's
  alternative decoder (internal/decoder/optdec: parse to a DOM, then per-type functors).

  Core Lean only.  Pieces in this file: errors/options, unquote (decode.go:1190 unquoteBytes), base64,
  integer literals (strconv.ParseInt/ParseUint), struct field resolution (encode.go:1069 typeFields for
  flat structs), field lookup with simple case folding (fold.go), the annotated tree `RVal` (JVal plus the
  raw text of containers, needed for json.RawMessage) with its parser, and `bindVal`.

  Known limits of the model (cases answered `outside`):
    * number → float32/float64/interface{} uses the exact conversion of core C (`Num.toF64Bits` /
      `Num.toF32Bits` = strconv.ParseFloat on JSON literals); the content of a `,string` float field that
      strconv accepts but that is not a JSON literal ("1.", "0x1p-2", "-Inf") is `outside`;
    * `(lib ..)` types; field names / keys with non-ASCII runes outside the small fold table below;
    * slices are values without hidden capacity (encoding/json re-exposes elements of a slice that an
      earlier duplicate key truncated; needs three occurrences of one key; the driver reports `outside`).
-/
import SonicSpec.Model.Hex
import SonicSpec.Model.JsonTree
import SonicSpec.Model.GoTypes
import SonicSpec.Model.Num
namespace SonicSpec.Bind
open SonicSpec SonicSpec.Go SonicSpec.Json

/-- canonical error kinds (messages are never compared) -/
inductive DErr where
  | syntax | mismatch | unknownField | other
  | outside          -- not an error of Unmarshal: the model does not cover this case
deriving Repr, DecidableEq, Inhabited

def DErr.toString : DErr → String
  | .syntax => "syntax" | .mismatch => "mismatch" | .unknownField => "unknown_field"
  | .other => "other" | .outside => "unsupported"

/-- decoder switches of sonic.Config that change the binding -/
structure DecOpts where
  useNumber : Bool := false
  useInt64 : Bool := false
  disallowUnknown : Bool := false
  caseSensitive : Bool := false
  validateString : Bool := false
  /-- CopyString: no effect on the decoded value; it switches off optdec's fastmap path -/
  copyString : Bool := false
deriving Repr, Inhabited

/-- `d.saveError`: the first error is kept (decode.go:260); `outside` is sticky so that the driver never
    gives a verdict on a case the model only partly covers -/
def merge (a b : Option DErr) : Option DErr :=
  if a == some .outside || b == some .outside then some .outside
  else match a with
    | some e => some e
    | none => b

abbrev R := GoVal × Option DErr

/-! ### UTF-8 (unicode/utf8.DecodeRune: first byte class, then continuation ranges) -/

def isCont (c : UInt8) : Bool := c ≥ 128 && c ≤ 191

/-- length of the well-formed UTF-8 sequence at the head of `s` (1..4), 0 if the head is ill-formed -/
def utf8Len : Bytes → Nat
  | [] => 0
  | c :: r =>
    if c < 128 then 1
    else if c ≥ 194 && c ≤ 223 then
      match r with
      | c1 :: _ => if isCont c1 then 2 else 0
      | _ => 0
    else if c ≥ 224 && c ≤ 239 then
      match r with
      | c1 :: c2 :: _ =>
        let lo : UInt8 := if c == 224 then 160 else 128
        let hi : UInt8 := if c == 237 then 159 else 191
        if c1 ≥ lo && c1 ≤ hi && isCont c2 then 3 else 0
      | _ => 0
    else if c ≥ 240 && c ≤ 244 then
      match r with
      | c1 :: c2 :: c3 :: _ =>
        let lo : UInt8 := if c == 240 then 144 else 128
        let hi : UInt8 := if c == 244 then 143 else 191
        if c1 ≥ lo && c1 ≤ hi && isCont c2 && isCont c3 then 4 else 0
      | _ => 0
    else 0

/-- utf8.EncodeRune for a scalar value (surrogates never reach here) -/
def encodeRune (r : Nat) : Bytes :=
  if r < 128 then [UInt8.ofNat r]
  else if r < 2048 then [UInt8.ofNat (192 + r / 64), UInt8.ofNat (128 + r % 64)]
  else if r < 65536 then [UInt8.ofNat (224 + r / 4096), UInt8.ofNat (128 + r / 64 % 64), UInt8.ofNat (128 + r % 64)]
  else [UInt8.ofNat (240 + r / 262144), UInt8.ofNat (128 + r / 4096 % 64), UInt8.ofNat (128 + r / 64 % 64), UInt8.ofNat (128 + r % 64)]

def replacement : Bytes := [239, 191, 189]   -- U+FFFD

def hex4 (a b c d : UInt8) : Option Nat :=
  match hexVal a, hexVal b, hexVal c, hexVal d with
  | some x, some y, some z, some w => some (x.toNat * 4096 + y.toNat * 256 + z.toNat * 16 + w.toNat)
  | _, _, _, _ => none

def simpleEscape (e : UInt8) : Option UInt8 :=
  if e == 34 || e == 92 || e == 47 || e == 39 then some e
  else if e == 98 then some 8
  else if e == 102 then some 12
  else if e == 110 then some 10
  else if e == 114 then some 13
  else if e == 116 then some 9
  else none

/-- `unquoteBytes` on the body of a literal (the bytes between the quotes), decode.go:1190:
    escapes decoded, `\uXXXX` with surrogate pairs, a lone surrogate → U+FFFD, every ill-formed UTF-8
    byte → U+FFFD, raw control characters and `"` refused. -/
def unquoteF : Nat → Bytes → Option Bytes
  | 0, _ => none
  | _, [] => some []
  | n+1, 92 :: 117 :: a :: b :: c :: d :: r =>
    match hex4 a b c d with
    | none => none
    | some u =>
      if u ≥ 55296 && u < 57344 then
        -- utf16.IsSurrogate: try to pair with the next \uXXXX (decode.go:1270)
        match r with
        | 92 :: 117 :: a2 :: b2 :: c2 :: d2 :: r2 =>
          match hex4 a2 b2 c2 d2 with
          | some u2 =>
            if u < 56320 && u2 ≥ 56320 && u2 < 57344 then
              (unquoteF n r2).map fun t => encodeRune (65536 + (u - 55296) * 1024 + (u2 - 56320)) ++ t
            else (unquoteF n r).map fun t => replacement ++ t
          | none => (unquoteF n r).map fun t => replacement ++ t
        | _ => (unquoteF n r).map fun t => replacement ++ t
      else (unquoteF n r).map fun t => encodeRune u ++ t
  | n+1, 92 :: e :: r =>
    match simpleEscape e with
    | some x => (unquoteF n r).map fun t => x :: t
    | none => none
  | n+1, c :: r =>
    if c == 92 || c == 34 || c < 32 then none
    else if c < 128 then (unquoteF n r).map fun t => c :: t
    else
      match utf8Len (c :: r), r with
      | 2, c1 :: r' => (unquoteF n r').map fun t => c :: c1 :: t
      | 3, c1 :: c2 :: r' => (unquoteF n r').map fun t => c :: c1 :: c2 :: t
      | 4, c1 :: c2 :: c3 :: r' => (unquoteF n r').map fun t => c :: c1 :: c2 :: c3 :: t
      | _, _ => (unquoteF n r).map fun t => replacement ++ t

def unquote (s : Bytes) : Option Bytes := unquoteF (s.length + 1) s

/-! ### base64.StdEncoding.Decode (padding required, `\r` and `\n` ignored, trailing bits not checked) -/

def b64Val (c : UInt8) : Option Nat :=
  if c ≥ 65 && c ≤ 90 then some (c.toNat - 65)
  else if c ≥ 97 && c ≤ 122 then some (c.toNat - 71)
  else if c ≥ 48 && c ≤ 57 then some (c.toNat + 4)
  else if c == 43 then some 62
  else if c == 47 then some 63
  else none

def b64Groups : Bytes → Option Bytes
  | [] => some []
  | [a, b, 61, 61] =>
    match b64Val a, b64Val b with
    | some x, some y => some [UInt8.ofNat (x * 4 + y / 16)]
    | _, _ => none
  | [a, b, c, 61] =>
    match b64Val a, b64Val b, b64Val c with
    | some x, some y, some z => some [UInt8.ofNat (x * 4 + y / 16), UInt8.ofNat (y % 16 * 16 + z / 4)]
    | _, _, _ => none
  | a :: b :: c :: d :: r =>
    match b64Val a, b64Val b, b64Val c, b64Val d with
    | some x, some y, some z, some w =>
      (b64Groups r).map fun t =>
        UInt8.ofNat (x * 4 + y / 16) :: UInt8.ofNat (y % 16 * 16 + z / 4) :: UInt8.ofNat (z % 4 * 64 + w) :: t
    | _, _, _, _ => none
  | _ => none

def b64Decode (s : Bytes) : Option Bytes :=
  b64Groups (s.filter fun c => c != 13 && c != 10)

/-! ### integers: strconv.ParseInt / ParseUint (base 10) followed by the width check -/

/-- a non-empty run of decimal digits -/
def allDigits (ds : Bytes) : Bool := !ds.isEmpty && ds.all isDigit

/-- the number a digit string denotes -/
def natOf (ds : Bytes) : Nat := ds.foldl (fun a c => a * 10 + (c.toNat - 48)) 0

def digitsVal (ds : Bytes) : Option Nat := if allDigits ds then some (natOf ds) else none

/-- strconv.ParseInt(s, 10, 64) without its range check (done by `fitsInt`): optional `+`/`-`, digits -/
def parseIntText : Bytes → Option Int
  | 45 :: r => (digitsVal r).map fun n => - (Int.ofNat n)
  | 43 :: r => (digitsVal r).map Int.ofNat
  | s => (digitsVal s).map Int.ofNat

def inRangeInt (w : Nat) (n : Int) : Bool := - (2 : Int) ^ (w - 1) ≤ n && n < (2 : Int) ^ (w - 1)
def inRangeUint (w : Nat) (n : Nat) : Bool := n < 2 ^ w

/-- a number text into a signed integer of `w` bits: exact or nothing (decode.go:990-996) -/
def bindInt (w : Nat) (lit : Bytes) : Option Int :=
  match parseIntText lit with
  | some n => if inRangeInt w n then some n else none
  | none => none

/-- strconv.ParseUint: digits only (no sign at all: `-0` is refused) -/
def bindUint (w : Nat) (lit : Bytes) : Option Nat :=
  match digitsVal lit with
  | some n => if inRangeUint w n then some n else none
  | none => none

/-- `isValidNumber` (encode.go): the JSON number grammar, whole string -/
def validNumber (s : Bytes) : Bool :=
  match scanNumber s with
  | some (_, []) => true
  | _ => false

/-! ### struct fields (encode.go typeFields, for the flat structs of the generated universe) -/

structure Field where
  name : Bytes
  idx : Nat
  ty : GoType
  quoted : Bool
  tagged : Bool
deriving Repr, Inhabited

def splitComma : Bytes → Bytes × Bytes
  | [] => ([], [])
  | 44 :: r => ([], r)
  | c :: r => let (a, b) := splitComma r; (c :: a, b)

def splitAllCommas : Nat → Bytes → List Bytes
  | 0, _ => []
  | n+1, s =>
    if s.isEmpty then [] else
    let (a, b) := splitComma s
    a :: splitAllCommas n b

def isAlnum (c : UInt8) : Bool := isDigit c || (c ≥ 97 && c ≤ 122) || (c ≥ 65 && c ≤ 90)

/-- encode.go isValidTag; non-ASCII bytes are taken to belong to letters (the generators only use letters) -/
def validTagChar (c : UInt8) : Bool :=
  c ≥ 128 || isAlnum c ||
  [33, 35, 36, 37, 38, 40, 41, 42, 43, 45, 46, 47, 58, 59, 60, 61, 62, 63, 64, 91, 93, 94, 95, 123, 124, 125, 126, 32].contains c

def validTag (s : Bytes) : Bool := !s.isEmpty && s.all validTagChar

/-- only strings, floats, integers and booleans can be quoted; one unnamed pointer level is followed -/
def quotableKind : GoType → Bool
  | .bool | .int _ | .uint _ | .f32 | .f64 | .str | .num => true
  | _ => false

def quotable : GoType → Bool
  | .ptr t => quotableKind t
  | t => quotableKind t

def rawFields : Nat → List (String × Option Bytes × GoType) → List Field
  | _, [] => []
  | i, (goName, tag, t) :: r =>
    match tag with
    | some [45] => rawFields (i + 1) r                   -- `json:"-"`
    | _ =>
      let tg := tag.getD []
      let (nm, opts) := splitComma tg
      let nm := if validTag nm then nm else []
      let q := (splitAllCommas (opts.length + 1) opts).contains [115, 116, 114, 105, 110, 103] && quotable t
      { name := if nm.isEmpty then goName.toUTF8.toList else nm, idx := i, ty := t, quoted := q, tagged := !nm.isEmpty }
        :: rawFields (i + 1) r

/-- dominantField for fields of one depth: a name carried by several fields survives only if exactly one
    of them got the name from a tag -/
def resolveFields (fs : List (String × Option Bytes × GoType)) : List Field :=
  let all := rawFields 0 fs
  all.filter fun f =>
    let same := all.filter fun g => g.name == f.name
    if same.length == 1 then true
    else f.tagged && (same.filter fun g => g.tagged).length == 1

/-! ### case folding (fold.go foldName: ASCII upper-cased, other runes to the smallest of their orbit) -/

/-- decode the rune at the head (precondition utf8Len = n > 0) -/
def runeOf : Bytes → Nat
  | [c] => c.toNat
  | [c, c1] => (c.toNat - 192) * 64 + (c1.toNat - 128)
  | [c, c1, c2] => (c.toNat - 224) * 4096 + (c1.toNat - 128) * 64 + (c2.toNat - 128)
  | [c, c1, c2, c3] => (c.toNat - 240) * 262144 + (c1.toNat - 128) * 4096 + (c2.toNat - 128) * 64 + (c3.toNat - 128)
  | _ => 65533

/-- foldRune on the part of Unicode the model covers: ASCII, Latin-1 and the runes whose fold orbit
    meets them (ſ K Å Ÿ Μ μ ẞ), the basic Greek and Cyrillic alphabets; `none` = outside the table -/
def foldRune (r : Nat) : Option Nat :=
  if r < 128 then some (if r ≥ 97 && r ≤ 122 then r - 32 else r)
  else if r == 181 then some 181
  else if r ≥ 224 && r ≤ 254 && r != 247 then some (r - 32)
  else if r < 256 then some r
  else if r == 376 then some 255
  else if r == 383 then some 83
  else if r == 8490 then some 75
  else if r == 8491 then some 197
  else if r == 924 || r == 956 then some 181
  else if r == 7838 then some 223
  -- Greek: capitals U+0391..03A9 are the smallest of their orbits, except Ι (orbit starts at U+0345) and Μ (µ)
  else if r == 921 || r == 953 then some 837
  else if r == 962 then some 931                              -- final sigma ς ~ Σ
  else if r ≥ 913 && r ≤ 937 && r != 930 then some r
  else if r ≥ 945 && r ≤ 969 then some (r - 32)
  -- Cyrillic: U+0410..042F / 0430..044F and U+0400..040F / 0450..045F
  else if r ≥ 1040 && r ≤ 1071 then some r
  else if r ≥ 1072 && r ≤ 1103 then some (r - 32)
  else if r ≥ 1024 && r ≤ 1039 then some r
  else if r ≥ 1104 && r ≤ 1119 then some (r - 80)
  else none

def foldName : Nat → Bytes → Option Bytes
  | 0, _ => some []
  | _, [] => some []
  | n+1, s =>
    match utf8Len s with
    | 0 => none
    | k =>
      match foldRune (runeOf (s.take k)) with
      | none => none
      | some r => (foldName n (s.drop k)).map fun t => encodeRune r ++ t

/-- folded name of a field / key (`none` = outside the fold table) -/
def fold (b : Bytes) : Option Bytes := foldName (b.length + 1) b

inductive Lookup where
  | found (f : Field)
  | missing
  | outside

/-- `fields.byExactName[key]`, else `fields.byFoldedName[foldName(key)]` (decode.go:693-696): the exact
    name wins; otherwise the FIRST field in index order with the same folded name.  `caseSensitive`
    (sonic only) disables the fallback. -/
def lookupField (fields : List Field) (caseSensitive : Bool) (key : Bytes) : Lookup :=
  if fields.isEmpty then .missing else
  match fields.find? fun f => f.name == key with
  | some f => .found f
  | none =>
    if caseSensitive then .missing else
    match fold key with
    | none => .outside
    | some fk =>
      if fields.any fun f => (fold f.name).isNone then .outside
      else match fields.find? fun f => fold f.name == some fk with
        | some f => .found f
        | none => .missing

/-! ### the annotated tree: `JVal` plus the raw text of every container (what RawMessage stores) -/

inductive RVal where
  | null
  | bool (b : Bool)
  | num (lit : Bytes)
  | str (body : Bytes) (val : Bytes)                 -- raw body and its unquoted value
  | arr (raw : Bytes) (xs : List RVal)
  | obj (raw : Bytes) (kvs : List (Bytes × RVal))    -- keys already unquoted
deriving Repr, Inhabited

/-- the source text of a value -/
def RVal.raw : RVal → Bytes
  | .null => [110, 117, 108, 108]
  | .bool true => [116, 114, 117, 101]
  | .bool false => [102, 97, 108, 115, 101]
  | .num l => l
  | .str b _ => 34 :: (b ++ [34])
  | .arr r _ => r
  | .obj r _ => r

/-- the bytes of `s` consumed when `t` is what is left -/
def consumed (s t : Bytes) : Bytes := s.take (s.length - t.length)

mutual
/-- `Json.parseVal` with the raw text kept (same fuel discipline, same grammar) -/
def parseR : Nat → Bytes → Option (RVal × Bytes)
  | 0, _ => none
  | n+1, s =>
    match s with
    | 110 :: 117 :: 108 :: 108 :: r => some (.null, r)
    | 116 :: 114 :: 117 :: 101 :: r => some (.bool true, r)
    | 102 :: 97 :: 108 :: 115 :: 101 :: r => some (.bool false, r)
    | 34 :: r =>
      match scanString r with
      | none => none
      | some (b, t) =>
        match unquote b with
        | none => none              -- never: the scanner validated the body
        | some u => some (.str b u, t)
    | 91 :: r =>
      match skipWs r with
      | 93 :: t => some (.arr (consumed s t) [], t)
      | r' => (parseRElems n r').map fun (xs, t) => (.arr (consumed s t) xs, t)
    | 123 :: r =>
      match skipWs r with
      | 125 :: t => some (.obj (consumed s t) [], t)
      | r' => (parseRMembers n r').map fun (kvs, t) => (.obj (consumed s t) kvs, t)
    | _ => (scanNumber s).map fun (l, t) => (.num l, t)
def parseRElems : Nat → Bytes → Option (List RVal × Bytes)
  | 0, _ => none
  | n+1, s =>
    match parseR n s with
    | none => none
    | some (v, r) =>
      match skipWs r with
      | 44 :: t => (parseRElems n (skipWs t)).map fun (xs, t') => (v :: xs, t')
      | 93 :: t => some ([v], t)
      | _ => none
def parseRMembers : Nat → Bytes → Option (List (Bytes × RVal) × Bytes)
  | 0, _ => none
  | n+1, s =>
    match s with
    | 34 :: r =>
      match scanString r with
      | none => none
      | some (k, r1) =>
        match skipWs r1 with
        | 58 :: r2 =>
          match unquote k with
          | none => none
          | some key =>
            match parseR n (skipWs r2) with
            | none => none
            | some (v, r3) =>
              match skipWs r3 with
              | 44 :: t => (parseRMembers n (skipWs t)).map fun (kvs, t') => ((key, v) :: kvs, t')
              | 125 :: t => some ([(key, v)], t)
              | _ => none
        | _ => none
    | _ => none
end

/-- a whole document (optional space, one value, optional space, end), as `Json.parseDoc` -/
def parseRDoc (s : Bytes) : Option RVal :=
  match parseR (s.length + 1) (skipWs s) with
  | some (v, r) => if (skipWs r).isEmpty then some v else none
  | none => none

/-! ### zero values, pointers -/

mutual
/-- the zero value of a type (`Go.zero` is a `partial def`, opaque to proofs; this is the same function) -/
def zeroOf : GoType → GoVal
  | .bool => .bool false
  | .int _ => .int 0
  | .uint _ => .uint 0
  | .f32 => .f32 0
  | .f64 => .f64 0
  | .str => .str []
  | .num => .num []
  | .bytes | .raw | .any | .sl _ | .ptr _ | .map _ _ => .nil
  | .arr n t => .arr (List.replicate n (zeroOf t))
  | .st fs => .st (zeroFields fs)
  | .lib _ => .lib []
def zeroFields : List (String × Option Bytes × GoType) → List GoVal
  | [] => []
  | (_, _, t) :: r => zeroOf t :: zeroFields r
end

def ptrBase : GoType → GoType
  | .ptr t => ptrBase t
  | t => t

/-- `indirect` (decode.go:426) on a tree value: walk down the pointers, allocating (= zero of the base
    type) where the pointer is nil -/
def peel : GoType → GoVal → GoVal
  | .ptr t, .ptr v => peel t v
  | .ptr t, _ => zeroOf (ptrBase t)
  | _, c => c

def wrapPtr : GoType → GoVal → GoVal
  | .ptr t, v => .ptr (wrapPtr t v)
  | _, v => v

/-- JSON `null` (decode.go:885-896): nil for pointer, map, slice, interface; no effect on anything else;
    a RawMessage is an Unmarshaler and receives the text `null` -/
def bindNull (T : GoType) (cur : GoVal) : GoVal :=
  match T with
  | .ptr _ | .map _ _ | .sl _ | .any | .bytes => .nil
  | .raw => .raw [110, 117, 108, 108]
  | _ => cur

/-! ### exact decimal → binary conversion (core C, `Model/Num.lean`): `some (some bits)`, `some none` = out
    of range (strconv's ErrRange: a type error in encoding/json), `none` = not a JSON number literal -/
def floatHook64 (_o : DecOpts) (lit : Bytes) : Option (Option UInt64) :=
  match Num.toF64Bits lit with
  | .ok b => some (some b)
  | .error .range => some none
  | .error _ => none
def floatHook32 (_o : DecOpts) (lit : Bytes) : Option (Option UInt32) :=
  match Num.toF32Bits lit with
  | .ok b => some (some b)
  | .error .range => some none
  | .error _ => none

/-- number literal → float64 destination (decode.go:1006-1012) -/
def bindF64 (o : DecOpts) (lit : Bytes) (cur : GoVal) : R :=
  match floatHook64 o lit with
  | none => (cur, some .outside)
  | some none => (cur, some .mismatch)
  | some (some b) => (.f64 b, none)

def bindF32 (o : DecOpts) (lit : Bytes) (cur : GoVal) : R :=
  match floatHook32 o lit with
  | none => (cur, some .outside)
  | some none => (cur, some .mismatch)
  | some (some b) => (.f32 b, none)

/-- `convertNumber` (decode.go:826): what a number literal becomes inside an interface{} -/
def anyNumber (o : DecOpts) (lit : Bytes) : R :=
  if o.useNumber then (.any .num (.num lit), none)
  else
    match (if o.useInt64 then bindInt 64 lit else none) with
    | some n => (.any (.int 64) (.int n), none)      -- sonic's UseInt64: integers that fit stay integers
    | none =>
      match floatHook64 o lit with
      | none => (.nil, some .outside)
      | some none => (.nil, some .mismatch)
      | some (some b) => (.any .f64 (.f64 b), none)

/-! ### scalars -/

/-- a number literal into a non-pointer, non-container destination (decode.go:959-1013) -/
def storeNumber (o : DecOpts) (fromQuoted : Bool) (lit : Bytes) (T : GoType) (cur : GoVal) : R :=
  match T with
  | .int w => match bindInt w lit with
    | some n => (.int n, none)
    | none => (cur, some .mismatch)
  | .uint w => match bindUint w lit with
    | some n => (.uint n, none)
    | none => (cur, some .mismatch)
  | .f64 => bindF64 o lit cur
  | .f32 => bindF32 o lit cur
  | .num => (.num lit, none)
  | .any => anyNumber o lit
  | .raw => (.raw lit, none)
  | .lib _ => (cur, some .outside)
  | _ => (cur, some (if fromQuoted then .other else .mismatch))

/-- an unquoted string into a destination (decode.go:922-957) -/
def storeString (s : Bytes) (rawText : Bytes) (T : GoType) (cur : GoVal) : R :=
  match T with
  | .str => (.str s, none)
  | .num => if validNumber s then (.num s, none) else (cur, some .other)
  | .bytes => match b64Decode s with
    | some b => (.bytes b, none)
    | none => (cur, some .other)
  | .sl (.uint 8) => match b64Decode s with       -- `(sl u8)` is []byte as well
    | some b => (.sl (b.map fun x => .uint x.toNat), none)
    | none => (cur, some .other)
  | .any => (.any .str (.str s), none)
  | .raw => (.raw rawText, none)
  | .lib _ => (cur, some .outside)
  | _ => (cur, some .mismatch)

def storeBool (fromQuoted : Bool) (b : Bool) (T : GoType) (cur : GoVal) : R :=
  match T with
  | .bool => (.bool b, none)
  | .any => (.any .bool (.bool b), none)
  | .raw => (.raw (if b then [116, 114, 117, 101] else [102, 97, 108, 115, 101]), none)
  | .lib _ => (cur, some .outside)
  | _ => (cur, some (if fromQuoted then .other else .mismatch))

def stripQuotes : Bytes → Option Bytes
  | 34 :: r =>
    match r.reverse with
    | 34 :: m => some m.reverse
    | _ => none
  | _ => none

/-- `literalStore(item, v, fromQuoted = true)`: the content of a `,string` field's string is itself a
    literal (decode.go:844).  `T` is the field type with its pointers already walked. -/
def storeQuoted (o : DecOpts) (item : Bytes) (T : GoType) (cur : GoVal) : R :=
  match item with
  | [] => (cur, some .other)
  | c :: _ =>
    if c == 110 then
      if item == [110, 117, 108, 108] then (bindNull T cur, none) else (cur, some .other)
    else if c == 116 || c == 102 then
      if item == [116, 114, 117, 101] then storeBool true true T cur
      else if item == [102, 97, 108, 115, 101] then storeBool true false T cur
      else (cur, some .other)
    else if c == 34 then
      match (stripQuotes item).bind unquote with
      | none => (cur, some .other)
      | some s => storeString s item T cur
    else if c == 45 || isDigit c then
      match T with
      | .num => (.num item, none)                 -- decode.go:968-972: no validation on this path
      | .str | .bool => (cur, some .other)
      | _ => storeNumber o true item T cur
    else (cur, some .other)

/-- a struct field with the `,string` option (decode.go:741-753): the value must be a string (whose
    content is decoded as a literal) or `null` -/
def bindQuoted (o : DecOpts) (j : RVal) (T : GoType) (cur : GoVal) : R :=
  match j with
  | .null => (bindNull T cur, none)
  | .str _ item =>
    if item == [110, 117, 108, 108] then (bindNull T cur, none)     -- indirect(v, decodingNull) stops at the pointer
    else
      let (v, e) := storeQuoted o item (ptrBase T) (peel T cur)
      (wrapPtr T v, e)
  | _ => (cur, some .other)

/-! ### keys of maps (decode.go:763-797) -/

def keyEq : GoVal → GoVal → Bool
  | .str a, .str b => a == b
  | .int a, .int b => a == b
  | .uint a, .uint b => a == b
  | _, _ => false

def mapSet (kvs : List (GoVal × GoVal)) (k v : GoVal) : List (GoVal × GoVal) :=
  if kvs.any fun p => keyEq p.1 k then kvs.map fun p => if keyEq p.1 k then (p.1, v) else p
  else kvs ++ [(k, v)]

inductive KeyRes where
  | key (k : GoVal)
  | bad            -- UnmarshalTypeError saved, entry not stored
  | unsupportedKey -- the map type itself is refused

def bindKey (K : GoType) (text : Bytes) : KeyRes :=
  match K with
  | .str => .key (.str text)
  | .int w => match bindInt w text with
    | some n => .key (.int n)
    | none => .bad
  | .uint w => match bindUint w text with
    | some n => .key (.uint n)
    | none => .bad
  | _ => .unsupportedKey

def mapKeyOk : GoType → Bool
  | .str | .int _ | .uint _ => true
  | _ => false

def curElems : GoVal → List GoVal
  | .sl xs => xs
  | .arr xs => xs
  | .bytes bs => bs.map fun b => .uint b.toNat
  | _ => []

def curEntries : GoVal → List (GoVal × GoVal)
  | .map kvs => kvs
  | _ => []

def curFields (fs : List (String × Option Bytes × GoType)) : GoVal → List GoVal
  | .st vs => vs
  | _ => zeroFields fs

def toBytes (vs : List GoVal) : Bytes :=
  vs.map fun v => match v with
    | .uint n => UInt8.ofNat n
    | _ => 0

/-! ### interface{} (decode.go:1023-1148 valueInterface / arrayInterface / objectInterface) -/

mutual
def toAny (o : DecOpts) : RVal → R
  | .null => (.nil, none)
  | .bool b => (.any .bool (.bool b), none)
  | .num l => anyNumber o l
  | .str _ s => (.any .str (.str s), none)
  | .arr _ xs => let (vs, e) := anyElems o xs; (.any (.sl .any) (.sl vs), e)
  | .obj _ kvs => let (es, e) := anyMembers o kvs []; (.any (.map .str .any) (.map es), e)
def anyElems (o : DecOpts) : List RVal → List GoVal × Option DErr
  | [] => ([], none)
  | x :: xs =>
    let (v, e) := toAny o x
    let (vs, e') := anyElems o xs
    (v :: vs, merge e e')
def anyMembers (o : DecOpts) : List (Bytes × RVal) → List (GoVal × GoVal) → List (GoVal × GoVal) × Option DErr
  | [], acc => (acc, none)
  | (key, x) :: kvs, acc =>
    let (v, e) := toAny o x
    let (res, e') := anyMembers o kvs (mapSet acc (.str key) v)
    (res, merge e e')
end

/-! ### `d.value` by kind -/

mutual
/-- bind one JSON value into a destination of type `T` currently holding `cur` -/
def bindVal (o : DecOpts) : RVal → GoType → GoVal → R
  | .null, T, cur => (bindNull T cur, none)
  | .bool b, T, cur => let (v, e) := storeBool false b (ptrBase T) (peel T cur); (wrapPtr T v, e)
  | .num l, T, cur => let (v, e) := storeNumber o false l (ptrBase T) (peel T cur); (wrapPtr T v, e)
  | .str body s, T, cur =>
    let (v, e) := storeString s (34 :: (body ++ [34])) (ptrBase T) (peel T cur); (wrapPtr T v, e)
  | .arr raw xs, T, cur =>
    let c := peel T cur
    match ptrBase T with
    | .sl t =>
      let (vs, e) := bindElems o xs t (curElems c) none
      (wrapPtr T (.sl vs), e)
    | .bytes =>
      let (vs, e) := bindElems o xs (.uint 8) (curElems c) none
      (wrapPtr T (.bytes (toBytes vs)), e)
    | .arr n t =>
      -- extra elements are skipped (no error can come from them), missing ones zeroed (decode.go:553-586)
      let (vs, e) := bindElems o xs t (curElems c) (some n)
      (wrapPtr T (.arr (vs ++ List.replicate (n - vs.length) (zeroOf t))), e)
    | .any => let (vs, e) := anyElems o xs; (wrapPtr T (.any (.sl .any) (.sl vs)), e)
    | .raw => (wrapPtr T (.raw raw), none)
    | .lib _ => (wrapPtr T c, some .outside)
    | _ => (wrapPtr T c, some .mismatch)
  | .obj raw kvs, T, cur =>
    let c := peel T cur
    match ptrBase T with
    | .st fs =>
      let (vs, e) := bindStruct o kvs (resolveFields fs) (curFields fs c)
      (wrapPtr T (.st vs), e)
    | .map K E =>
      if mapKeyOk K then
        let (es, e) := bindMap o kvs K E (curEntries c)
        (wrapPtr T (.map es), e)
      else (wrapPtr T c, some .mismatch)
    | .any => let (es, e) := anyMembers o kvs []; (wrapPtr T (.any (.map .str .any) (.map es)), e)
    | .raw => (wrapPtr T (.raw raw), none)
    | .lib _ => (wrapPtr T c, some .outside)
    | _ => (wrapPtr T c, some .mismatch)
/-- elements of an array into element type `t`; `curs` = what the destination holds from the current
    index on; at most `lim` elements are stored (`none` = no limit: slices) -/
def bindElems (o : DecOpts) : List RVal → GoType → List GoVal → Option Nat → List GoVal × Option DErr
  | [], _, _, _ => ([], none)
  | x :: xs, t, curs, lim =>
    if lim == some 0 then ([], none) else
    let (v, e) := bindVal o x t (curs.headD (zeroOf t))
    let (vs, e') := bindElems o xs t curs.tail (lim.map (· - 1))
    (v :: vs, merge e e')
/-- members of an object into a struct: each key is looked up, its value bound into the field's current
    content (so a duplicate key overwrites scalars and merges into containers) -/
def bindStruct (o : DecOpts) : List (Bytes × RVal) → List Field → List GoVal → List GoVal × Option DErr
  | [], _, vs => (vs, none)
  | (key, x) :: kvs, fields, vs =>
    match lookupField fields o.caseSensitive key with
    | .outside =>
      let (res, e') := bindStruct o kvs fields vs
      (res, merge (some .outside) e')
    | .missing =>
      let (res, e') := bindStruct o kvs fields vs
      (res, merge (if o.disallowUnknown then some .unknownField else none) e')
    | .found f =>
      let cur := vs.getD f.idx (zeroOf f.ty)
      let (v, e) := if f.quoted then bindQuoted o x f.ty cur else bindVal o x f.ty cur
      let (res, e') := bindStruct o kvs fields (vs.set f.idx v)
      (res, merge e e')
/-- members of an object into a map: the element is decoded into a fresh zero value, then stored under
    the converted key (a bad key saves an error and stores nothing) -/
def bindMap (o : DecOpts) : List (Bytes × RVal) → GoType → GoType → List (GoVal × GoVal) → List (GoVal × GoVal) × Option DErr
  | [], _, _, acc => (acc, none)
  | (key, x) :: kvs, K, E, acc =>
    let (v, e) := bindVal o x E (zeroOf E)
    match bindKey K key with
    | .key kv =>
      let (res, e') := bindMap o kvs K E (mapSet acc kv v)
      (res, merge e e')
    | _ =>
      let (res, e') := bindMap o kvs K E acc
      (res, merge (merge e (some .mismatch)) e')
end

/-- `json.Unmarshal(s, &dst)` with `dst` the zero value of `T`: syntax of the WHOLE document first, then
    bind; the value is produced even when a (soft) error is returned -/
def decodeFull (o : DecOpts) (T : GoType) (s : Bytes) : R :=
  match parseRDoc s with
  | none => (zeroOf T, some .syntax)
  | some j => bindVal o j T (zeroOf T)

def decode (o : DecOpts) (T : GoType) (s : Bytes) : Except DErr GoVal :=
  match decodeFull o T s with
  | (v, none) => .ok v
  | (_, some e) => .error e

end SonicSpec.Bind
