/-
  Enc core, the way back (core Lean only): a small decoder `decodeBack` over `Json.JVal` for the
  part of the universe the round-trip theorem of C04 carries (the `dec` work package owns the full
  `Bind.decode`), value equivalence up to nil-vs-empty and map order, and token equivalence of two
  JSON texts ("same tokens, string literals denote the same string, number literals identical").
-/
import SonicSpec.Model.Enc
namespace SonicSpec.Enc
open SonicSpec.Go SonicSpec.Json

/-! ### zero values (total version of `Go.zero`) -/

mutual
def zeroV : GoType → GoVal
  | .bool => .bool false
  | .int _ => .int 0
  | .uint _ => .uint 0
  | .f32 => .f32 0
  | .f64 => .f64 0
  | .str => .str []
  | .num => .num []
  | .bytes | .raw | .any | .sl _ | .ptr _ | .map _ _ => .nil
  | .arr n t => .arr (List.replicate n (zeroV t))
  | .st fs => .st (zeroFields fs)
  | .lib "Rec" => .st [.int 0, .nil]
  | .lib "Tree" => .st [.str [], .nil, .nil]
  | .lib "EmbOuter" => .st [.st [.int 0, .str []], .nil, .int 0, .int 0]
  | .lib "LJ" | .lib "LJP" | .lib "LT" => .lib []
  | .lib _ => .st [.int 0]
def zeroFields : List (String × Option Bytes × GoType) → List GoVal
  | [] => []
  | (_, _, t) :: r => zeroV t :: zeroFields r
end

/-! ### integer literals -/

def digitsVal : Bytes → Nat → Option Nat
  | [], acc => some acc
  | c :: r, acc => if c ≥ 48 && c ≤ 57 then digitsVal r (acc * 10 + (c.toNat - 48)) else none

/-- a JSON number literal without fraction and exponent, as an integer -/
def parseIntLit : Bytes → Option Int
  | 45 :: r => if r.isEmpty then none else (digitsVal r 0).map fun n => -(n : Int)
  | s => if s.isEmpty then none else (digitsVal s 0).map fun n => (n : Int)

def intInRange (bits : Nat) (i : Int) : Bool := -(2 ^ (bits - 1) : Int) ≤ i && i < (2 ^ (bits - 1) : Int)
def natInRange (bits : Nat) (n : Nat) : Bool := n < 2 ^ bits

/-! ### base64 (the way back of `b64`) -/

/-- value of a base64 character (StdEncoding alphabet) -/
def b64v (c : UInt8) : Option Nat :=
  if c ≥ 65 && c ≤ 90 then some (c.toNat - 65)
  else if c ≥ 97 && c ≤ 122 then some (c.toNat - 97 + 26)
  else if c ≥ 48 && c ≤ 57 then some (c.toNat - 48 + 52)
  else if c == 43 then some 62
  else if c == 47 then some 63
  else none

/-- base64 decoding (StdEncoding, padded), strict -/
def b64dec : Bytes → Option Bytes
  | [] => some []
  | [a, b, 61, 61] =>
    match b64v a, b64v b with
    | some x, some y => some [UInt8.ofNat ((x * 64 + y) / 16)]
    | _, _ => none
  | [a, b, c, 61] =>
    match b64v a, b64v b, b64v c with
    | some x, some y, some z =>
      let n := (x * 64 + y) * 64 + z
      some [UInt8.ofNat (n / 1024), UInt8.ofNat (n / 4 % 256)]
    | _, _, _ => none
  | a :: b :: c :: d :: r =>
    match b64v a, b64v b, b64v c, b64v d, b64dec r with
    | some x, some y, some z, some w, some t =>
      let n := ((x * 64 + y) * 64 + z) * 64 + w
      some (UInt8.ofNat (n / 65536) :: UInt8.ofNat (n / 256 % 256) :: UInt8.ofNat (n % 256) :: t)
    | _, _, _, _, _ => none
  | _ => none

/-! ### decodeBack -/

inductive DErr where
  | mismatch      -- the text cannot be decoded into the type
  | na            -- outside the small decoder (base64, interfaces, `,string`, callbacks)
deriving Repr, DecidableEq, Inhabited

/-- position of the field with this JSON name among the emitted fields -/
def findField (name : Bytes) : List (Option Field) → Nat → Option (Nat × Field)
  | [], _ => none
  | some f :: r, i => if f.name == name then some (i, f) else findField name r (i + 1)
  | none :: r, i => findField name r (i + 1)

def setAt (vs : List GoVal) (i : Nat) (v : GoVal) : List GoVal := vs.set i v

/-- map key from its text -/
def keyOfText : GoType → Bytes → Except DErr GoVal
  | .str, s => .ok (.str s)
  | .int b, s => match parseIntLit s with
    | some i => if intInRange b i then .ok (.int i) else .error .mismatch
    | none => .error .mismatch
  | .uint b, s => match parseIntLit s with
    | some (.ofNat n) => if natInRange b n then .ok (.uint n) else .error .mismatch
    | _ => .error .mismatch
  | _, _ => .error .na

mutual
/-- decode a JSON tree into a value of type `T` starting from the zero value (what Unmarshal into
    a fresh variable does), for the carried sub-universe -/
def decV : GoType → JVal → Except DErr GoVal
  | .bool, .bool b => .ok (.bool b)
  | .int bits, .num l => match parseIntLit l with
    | some i => if intInRange bits i then .ok (.int i) else .error .mismatch
    | none => .error .mismatch
  | .uint bits, .num l => match parseIntLit l with
    | some (.ofNat n) => if natInRange bits n then .ok (.uint n) else .error .mismatch
    | _ => .error .mismatch
  | .str, .str b => match unq b with
    | some s => .ok (.str s)
    | none => .error .mismatch
  | .num, .num l => .ok (.num l)
  | .f64, .num l => (match Num.toF64Bits l with | .ok b => .ok (.f64 b) | .error _ => .error .mismatch)
  | .f32, .num l => (match Num.toF32Bits l with | .ok b => .ok (.f32 b) | .error _ => .error .mismatch)
  | .f64, .null => .ok (.f64 0)
  | .f32, .null => .ok (.f32 0)
  | .ptr _, .null => .ok .nil
  | .ptr t, j => (decV t j).map .ptr
  | .sl _, .null => .ok .nil
  | .sl (.uint 8), _ => .error .na            -- []byte: base64, outside this decoder
  | .sl t, .arr xs => (decL t xs).map .sl
  | .arr n t, .arr xs => if xs.length == n then (decL t xs).map .arr else .error .na
  | .map _ _, .null => .ok .nil
  | .map k t, .obj kvs => (decM k t kvs).map .map
  | .st fs, .obj kvs =>
    match keepList fs with
    | some ks => (decF ks kvs (zeroFields fs)).map .st
    | none => .error .na
  | .st fs, .null => .ok (.st (zeroFields fs))
  | .lib name, .obj kvs =>
    match libStruct name with
    | some fs =>
      match keepList fs with
      | some ks => (decF ks kvs (zeroFields fs)).map .st
      | none => .error .na
    | none => .error .na
  | .bool, .null => .ok (.bool false)
  | .int _, .null => .ok (.int 0)
  | .uint _, .null => .ok (.uint 0)
  | .str, .null => .ok (.str [])
  | .bytes, .null => .ok .nil
  | .bytes, .arr [] => .ok (.bytes [])
  | .bytes, .str b => (match (unq b).bind b64dec with | some x => .ok (.bytes x) | none => .error .mismatch)
  | .bytes, _ | .raw, _ | .any, _ | .lib _, _ => .error .na
  | _, _ => .error .mismatch
def decL (t : GoType) : List JVal → Except DErr (List GoVal)
  | [] => .ok []
  | j :: js => do
    let v ← decV t j
    let vs ← decL t js
    pure (v :: vs)
def decM (k t : GoType) : List (Bytes × JVal) → Except DErr (List (GoVal × GoVal))
  | [] => .ok []
  | (kb, j) :: r =>
    match unq kb with
    | none => .error .mismatch
    | some ks => do
      let kv ← keyOfText k ks
      let v ← decV t j
      let vs ← decM k t r
      pure ((kv, v) :: vs)
/-- members are applied in document order onto the accumulated struct value (a later duplicate wins);
    unknown names are ignored; `,string` members are outside this decoder -/
def decF (ks : List (Option Field)) : List (Bytes × JVal) → List GoVal → Except DErr (List GoVal)
  | [], acc => .ok acc
  | (kb, j) :: r, acc =>
    match unq kb with
    | none => .error .mismatch
    | some name =>
      match findField name ks 0 with
      | none => decF ks r acc
      | some (i, f) =>
        if f.quoted then .error .na
        else do
          let v ← decV f.typ j
          decF ks r (setAt acc i v)
end

/-- the text of a Marshal result decoded back into `T` -/
def decodeBack (T : GoType) (b : Bytes) : Except DErr GoVal :=
  match parseDoc b with
  | some j => decV T j
  | none => .error .mismatch

/-! ### value equivalence: equal up to map entry order and (when `lenient`) nil vs empty slice/map -/

def keyLe : GoVal → GoVal → Bool
  | .str a, .str b => bytesLe a b
  | .int a, .int b => a ≤ b
  | .uint a, .uint b => a ≤ b
  | .st [.int a], .st [.int b] => a ≤ b
  | _, _ => true

def insertE (e : GoVal × GoVal) : List (GoVal × GoVal) → List (GoVal × GoVal)
  | [] => [e]
  | f :: r => if keyLe e.1 f.1 then e :: f :: r else f :: insertE e r

def sortE : List (GoVal × GoVal) → List (GoVal × GoVal)
  | [] => []
  | e :: r => insertE e (sortE r)

mutual
/-- canonical form: map entries sorted by key -/
def canon : GoVal → GoVal
  | .sl xs => .sl (canonL xs)
  | .arr xs => .arr (canonL xs)
  | .st xs => .st (canonL xs)
  | .ptr v => .ptr (canon v)
  | .any t v => .any t (canon v)
  | .map kvs => .map (sortE (canonE kvs))
  | v => v
def canonL : List GoVal → List GoVal
  | [] => []
  | v :: r => canon v :: canonL r
def canonE : List (GoVal × GoVal) → List (GoVal × GoVal)
  | [] => []
  | (k, v) :: r => (k, canon v) :: canonE r
end

mutual
def eqv (lenient : Bool) : GoVal → GoVal → Bool
  | .bool a, .bool b => a == b
  | .int a, .int b => a == b
  | .uint a, .uint b => a == b
  | .f64 a, .f64 b => a == b
  | .f32 a, .f32 b => a == b
  | .str a, .str b => a == b
  | .num a, .num b => a == b
  | .bytes a, .bytes b => a == b
  | .raw a, .raw b => a == b
  | .lib a, .lib b => a == b
  | .nil, .nil => true
  | .nil, .sl [] => lenient
  | .nil, .map [] => lenient
  | .nil, .bytes [] => lenient
  | .sl [], .nil => lenient
  | .map [], .nil => lenient
  | .bytes [], .nil => lenient
  | .sl a, .sl b => eqvL lenient a b
  | .arr a, .arr b => eqvL lenient a b
  | .st a, .st b => eqvL lenient a b
  | .ptr a, .ptr b => eqv lenient a b
  | .any _ a, .any _ b => eqv lenient a b
  | .map a, .map b => eqvE lenient a b
  | _, _ => false
def eqvL (lenient : Bool) : List GoVal → List GoVal → Bool
  | [], [] => true
  | a :: r, b :: s => eqv lenient a b && eqvL lenient r s
  | _, _ => false
def eqvE (lenient : Bool) : List (GoVal × GoVal) → List (GoVal × GoVal) → Bool
  | [], [] => true
  | (k, a) :: r, (l, b) :: s => eqv false k l && eqv lenient a b && eqvE lenient r s
  | _, _ => false
end

/-- `orig ≃ back`: the decoded value equals the original up to map order and, under
    NoNullSliceOrMap, a nil slice/map having become an empty one -/
def valEq (lenient : Bool) (orig back : GoVal) : Bool := eqv lenient (canon orig) (canon back)

/-! ### token equivalence of two JSON trees -/

def insertJ (e : Bytes × JVal) : List (Bytes × JVal) → List (Bytes × JVal)
  | [] => [e]
  | f :: r => if bytesLe ((denote e.1).getD e.1) ((denote f.1).getD f.1) then e :: f :: r else f :: insertJ e r

def sortJ : List (Bytes × JVal) → List (Bytes × JVal)
  | [] => []
  | e :: r => insertJ e (sortJ r)

mutual
/-- members of every object sorted by the string the key denotes (used when map order is free) -/
def jcanon : JVal → JVal
  | .arr xs => .arr (jcanonL xs)
  | .obj kvs => .obj (sortJ (jcanonM kvs))
  | v => v
def jcanonL : List JVal → List JVal
  | [] => []
  | v :: r => jcanon v :: jcanonL r
def jcanonM : List (Bytes × JVal) → List (Bytes × JVal)
  | [] => []
  | (k, v) :: r => (k, jcanon v) :: jcanonM r
end

def strEq (a b : Bytes) : Bool :=
  match denote a, denote b with
  | some x, some y => x == y
  | _, _ => false

mutual
/-- same tokens in the same order; string literals compared by what they denote, number literals
    byte for byte -/
def tokEq : JVal → JVal → Bool
  | .null, .null => true
  | .bool a, .bool b => a == b
  | .num a, .num b => a == b
  | .str a, .str b => strEq a b
  | .arr a, .arr b => tokEqL a b
  | .obj a, .obj b => tokEqM a b
  | _, _ => false
def tokEqL : List JVal → List JVal → Bool
  | [], [] => true
  | a :: r, b :: s => tokEq a b && tokEqL r s
  | _, _ => false
def tokEqM : List (Bytes × JVal) → List (Bytes × JVal) → Bool
  | [], [] => true
  | (k, a) :: r, (l, b) :: s => strEq k l && tokEq a b && tokEqM r s
  | _, _ => false
end

/-- relation between two texts: `ordered` = object member order matters everywhere (SortMapKeys) -/
def textEq (ordered : Bool) (a b : Bytes) : Bool :=
  match parseDoc a, parseDoc b with
  | some x, some y => if ordered then tokEq x y else tokEq (jcanon x) (jcanon y)
  | _, _ => false

/-! ### library values travel as JSON text (go/harness/types.go buildValue): bring them into the model -/

def unhexBytes : Bytes → Option Bytes
  | [] => some []
  | [_] => none
  | a :: b :: r => match hexVal a, hexVal b, unhexBytes r with
    | some x, some y, some t => some ((x * 16 + y) :: t)
    | _, _, _ => none

def libOfJson (name : String) (j : JVal) : Option GoVal :=
  let getInt (k : String) (kvs : List (Bytes × JVal)) : Int :=
    match kvs.find? (fun e => e.1 == ascii k) with
    | some (_, .num l) => (parseIntLit l).getD 0
    | _ => 0
  let getStr (k : String) (kvs : List (Bytes × JVal)) : Bytes :=
    match kvs.find? (fun e => e.1 == ascii k) with
    | some (_, .str b) => (unq b).getD []
    | _ => []
  let payload (j : JVal) : Option GoVal :=
    match j with
    | .str b => match unq b with
      | some (104 :: 101 :: 120 :: 58 :: r) => (unhexBytes r).map .lib     -- "hex:<payload>"
      | _ => none
    | _ => none
  match name, j with
  | "LJ", j => payload j
  | "LJP", j => payload j
  | "LT", j => payload j
  | "MV", .obj kvs => some (.st [.int (getInt "mv" kvs)])
  | "MP", .obj kvs => some (.st [.int (getInt "V" kvs)])
  | "TP", .obj kvs => some (.st [.int (getInt "V" kvs)])
  | "TV", .str b =>
    match unq b with
    | some (116 :: 118 :: r) => (parseIntLit r).map fun n => .st [.int n]
    | _ => none
  | "EmbOuter", .obj kvs =>
    let p : GoVal := if kvs.any (fun e => e.1 == ascii "C") then .ptr (.st [.int (getInt "C" kvs), .int 0]) else .nil
    some (.st [.st [.int 0, .str (getStr "b" kvs)], p, .int (getInt "bb" kvs), .int (getInt "D" kvs)])
  | n, j => match decV (.lib n) j with
    | .ok v => some v
    | .error _ => none

mutual
/-- replace every `(lib JSON)` leaf by the structured library value -/
def prepV : GoType → GoVal → Option GoVal
  | .lib n, .lib js => (parseDoc js).bind (libOfJson n)
  | .sl t, .sl xs => (prepL t xs).map .sl
  | .arr _ t, .arr xs => (prepL t xs).map .arr
  | .ptr t, .ptr v => (prepV t v).map .ptr
  | .any, .any t v => (prepV t v).map (.any t)
  | .map k t, .map kvs => (prepM k t kvs).map .map
  | .st fs, .st vs => (prepF fs vs).map .st
  | _, v => some v
def prepL (t : GoType) : List GoVal → Option (List GoVal)
  | [] => some []
  | v :: r => do let a ← prepV t v; let b ← prepL t r; pure (a :: b)
def prepM (k t : GoType) : List (GoVal × GoVal) → Option (List (GoVal × GoVal))
  | [] => some []
  | (a, b) :: r => do let a' ← prepV k a; let b' ← prepV t b; let r' ← prepM k t r; pure ((a', b') :: r')
def prepF : List (String × Option Bytes × GoType) → List GoVal → Option (List GoVal)
  | (_, _, t) :: fs, v :: vs => do let a ← prepV t v; let b ← prepF fs vs; pure (a :: b)
  | _, _ => some []
end

end SonicSpec.Enc
